(* Proofs about model/FragProg.v: loops and functions together (DESIGN 3, "FragProg").  The instrumented program, run under any schedule
   of activations of loop-test, loop-body and function guards, computes what the source computes and delivers the reference stream
   gated by the guards.  The right-hand-side layer (calls, arguments) is that of proofs/FragFunProofs.v. *)
From Coq Require Import List ZArith NArith Bool Lia.
Import ListNotations.
From PyccoloV Require Import gen.PyAst gen.Ids gen.Events model.Tree model.Erase model.RwFrag model.FragSem model.FragFun model.FragProg
  proofs.RwFragProj proofs.FragSemProofs proofs.FragFunProofs.
Local Open Scope N_scope.

(* ---------------------------------------------------------------- source programs *)
(* statements of a function body / below the top level: no definitions *)
Fixpoint psrc_b (s : pstmt) : bool :=
  match s with
  | PExpr _ r | PAssign _ _ r => src_r r
  | PPass _ | PBreak _ | PContinue _ => true
  | PIf _ t b o | PWhile _ t b o => src_e t && forallb psrc_b b && forallb psrc_b o
  | PFor _ _ it b o => src_r it && forallb psrc_b b && forallb psrc_b o
  | PReturn _ None => true
  | PReturn _ (Some r) => src_r r
  | _ => false
  end.
Definition psrc_t (s : pstmt) : bool := match s with PDef _ _ _ body => forallb psrc_b body | _ => psrc_b s end.

Section IndP.
Variable P : pstmt -> Prop.
Hypothesis HExpr : forall n v, P (PExpr n v).
Hypothesis HAssign : forall n xs v, P (PAssign n xs v).
Hypothesis HPass : forall n, P (PPass n).
Hypothesis HIf : forall n t b o, Forall P b -> Forall P o -> P (PIf n t b o).
Hypothesis HWhile : forall n t b o, Forall P b -> Forall P o -> P (PWhile n t b o).
Hypothesis HFor : forall n x it b o, Forall P b -> Forall P o -> P (PFor n x it b o).
Hypothesis HBreak : forall n, P (PBreak n).
Hypothesis HContinue : forall n, P (PContinue n).
Hypothesis HReturn : forall n v, P (PReturn n v).
Hypothesis HDef : forall n name ps body, Forall P body -> P (PDef n name ps body).
Hypothesis HEmit : forall e n v g, P (PEmit e n v g).
Hypothesis HBefore : forall n tb own, Forall P tb -> Forall P own -> P (PBefore n tb own).
Hypothesis HWhileG : forall n g t' t b o, Forall P b -> Forall P o -> P (PWhileG n g t' t b o).
Hypothesis HGuardIf : forall g before i p, Forall P i -> Forall P p -> P (PGuardIf g before i p).
Hypothesis HTry : forall b fin, Forall P b -> Forall P fin -> P (PTry b fin).
Hypothesis HNameTry : forall b p, Forall P b -> Forall P p -> P (PNameTry b p).
Fixpoint pstmt_ind' (s : pstmt) : P s :=
  let go := fix go (u : list pstmt) : Forall P u := match u with [] => Forall_nil P | x :: u' => Forall_cons x (pstmt_ind' x) (go u') end in
  match s with
  | PExpr n v => HExpr n v
  | PAssign n xs v => HAssign n xs v
  | PPass n => HPass n
  | PIf n t b o => HIf n t b o (go b) (go o)
  | PWhile n t b o => HWhile n t b o (go b) (go o)
  | PFor n x it b o => HFor n x it b o (go b) (go o)
  | PBreak n => HBreak n
  | PContinue n => HContinue n
  | PReturn n v => HReturn n v
  | PDef n name ps body => HDef n name ps body (go body)
  | PEmit e n v g => HEmit e n v g
  | PBefore n tb own => HBefore n tb own (go tb) (go own)
  | PWhileG n g t' t b o => HWhileG n g t' t b o (go b) (go o)
  | PGuardIf g before i p => HGuardIf g before i p (go i) (go p)
  | PTry b fin => HTry b fin (go b) (go fin)
  | PNameTry b p => HNameTry b p (go b) (go p)
  end.
End IndP.

Section ProgProofs.
Variable binop : N -> val -> val -> res val.
Variable cmpop : N -> val -> val -> res bool.
Variable unop : N -> val -> res val.
Variable truth : val -> bool.
Variable cval : scalar -> val.
Variable is_and : N -> bool.
Variable c : rcfg.
Variable pol : list entry -> guard -> bool.
Variable fuel : nat.
Variable ge : bool.

Notation eval_e := (eval_e binop cmpop unop truth cval is_and).
Notation ref_e := (ref_e binop cmpop unop truth cval is_and).
Notation eval_r := (eval_r binop cmpop unop truth cval is_and).
Notation ref_r := (ref_r binop cmpop unop truth cval is_and).
Notation pexec_s := (pexec_s binop cmpop unop truth cval is_and c pol fuel).
Notation pexec_l := (pexec_l binop cmpop unop truth cval is_and c pol fuel).
Notation pref_s := (pref_s binop cmpop unop truth cval is_and c pol fuel ge).
Notation pref_l := (pref_l binop cmpop unop truth cval is_and c pol fuel ge).
Notation pgon := (pgon c pol).
Notation fl := (filter_log c).
Notation eval_src := (FragFunProofs.eval_src binop cmpop unop truth cval is_and).

Lemma fl_app a b : fl (a ++ b) = fl a ++ fl b.
Proof. apply filter_app. Qed.
Lemma fl_cons e n v l : fl ((e, n, v) :: l) = (if sub c e then [(e, n, v)] else []) ++ fl l.
Proof. unfold filter_log. cbn [filter fst]. destruct (sub c e); reflexivity. Qed.
Lemma fl_nil : fl [] = [].
Proof. reflexivity. Qed.
Lemma fl_single e n v : fl [(e, n, v)] = if sub c e then [(e, n, v)] else [].
Proof. unfold filter_log. cbn [filter fst]. destruct (sub c e); reflexivity. Qed.
Lemma fl_idem l : fl (fl l) = fl l.
Proof. apply FragFunProofs.fl_idem. Qed.
Lemma fl_if (b : bool) x y : fl (if b then x else y) = if b then fl x else fl y.
Proof. destruct b; reflexivity. Qed.
Lemma fl_emitted_r e n q : fl (emitted_r e n q) = if sub c e then emitted_r e n q else [].
Proof. apply FragFunProofs.fl_emitted_r. Qed.
Lemma fl_emitted e n q : fl (emitted e n q) = if sub c e then emitted e n q else [].
Proof. apply FragFunProofs.fl_emitted. Qed.
Lemma pgon_fl p p' g : fl p = fl p' -> pgon p g = pgon p' g.
Proof. unfold FragProg.pgon. intros ->. reflexivity. Qed.
Lemma fl_pre p p' a b : fl p = fl p' -> fl a = fl b -> fl (p ++ a) = fl (p' ++ b).
Proof. intros H1 H2. rewrite !fl_app, H1, H2. reflexivity. Qed.
Lemma ge_cases : ge = true \/ ge = false.
Proof. destruct ge; auto. Qed.

Ltac flags := repeat match goal with |- context [sub c ?e] => destruct (sub c e) end.
Ltac norm := cbn [app emitted emitted_r fst snd]; repeat first [rewrite fl_app | rewrite fl_cons | rewrite fl_nil | rewrite fl_emitted | rewrite fl_emitted_r | rewrite fl_idem | rewrite fl_if];
             rewrite ?app_nil_r; cbn [app emitted emitted_r fst snd].
Ltac fin := norm; flags; cbn [app emitted emitted_r fst snd]; rewrite ?app_nil_r; repeat rewrite <- app_assoc; cbn [app]; repeat rewrite <- app_assoc; reflexivity.

Section WithCalls.
Variable call : callT.
Variable callr : callR.
Hypothesis call_ok : call_sim c call callr.

Definition Rloud := rhs_loud binop cmpop unop truth cval is_and c call callr call_ok.
Definition Rquiet := rhs_quiet binop cmpop unop truth cval is_and c call callr call_ok.
Definition EwrapR := FragFunProofs.eval_wrapR binop cmpop unop truth cval is_and c call.
Definition EdefR := FragFunProofs.eval_defR binop cmpop unop truth cval is_and c call.

(* ================================================================ statements: unfolding *)
Notation X_s := (pexec_s call).
Notation X_l := (pexec_l call).
Notation R_s := (pref_s callr).
Notation R_l := (pref_l callr).

Definition ploop (sc : scope) (glob : env) (test : env -> list entry -> res val * list entry) (b o : list pstmt) :=
  fix loop (f : nat) (r : env) (saved : val) (pre : list entry) {struct f} : pres :=
    match f with
    | O => {| p_exc := Some (PO FFuel); p_env := r; p_saved := saved; p_log := [] |}
    | S f' =>
        let '(q, lt) := test r pre in
        match q with
        | Err e => {| p_exc := Some (PO (FX e)); p_env := r; p_saved := saved; p_log := lt |}
        | Ok vt =>
            if truth vt then
              let a := X_l sc glob b r saved (pre ++ lt) in
              match p_exc a with
              | Some PBrk => {| p_exc := None; p_env := p_env a; p_saved := p_saved a; p_log := lt ++ p_log a |}
              | None | Some PCnt =>
                  let z := loop f' (p_env a) (p_saved a) (pre ++ lt ++ p_log a) in
                  {| p_exc := p_exc z; p_env := p_env z; p_saved := p_saved z; p_log := lt ++ p_log a ++ p_log z |}
              | Some _ => {| p_exc := p_exc a; p_env := p_env a; p_saved := p_saved a; p_log := lt ++ p_log a |}
              end
            else let a := X_l sc glob o r saved (pre ++ lt) in
                 {| p_exc := p_exc a; p_env := p_env a; p_saved := p_saved a; p_log := lt ++ p_log a |}
        end
    end.
Lemma pexec_PWhile sc glob n t b o r sv pre :
  X_s sc glob (PWhile n t b o) r sv pre = ploop sc glob (fun r _ => eval_e t (look sc glob r)) b o fuel r sv pre.
Proof. reflexivity. Qed.
Lemma pexec_PWhileG sc glob n g t' t b o r sv pre :
  X_s sc glob (PWhileG n g t' t b o) r sv pre =
  ploop sc glob (fun r pre => if pgon pre g then eval_e t' (look sc glob r) else eval_e t (look sc glob r)) b o fuel r sv pre.
Proof. reflexivity. Qed.
Definition pfloop (sc : scope) (glob : env) (x : N) (b o : list pstmt) :=
  fix floop (k : nat) (i : Z) (r : env) (saved : val) (pre : list entry) {struct k} : pres :=
    match k with
    | O => X_l sc glob o r saved pre
    | S k' =>
        let a := X_l sc glob b (upd r x (VInt i)) saved pre in
        match p_exc a with
        | Some PBrk => {| p_exc := None; p_env := p_env a; p_saved := p_saved a; p_log := p_log a |}
        | None | Some PCnt =>
            let z := floop k' (i + 1)%Z (p_env a) (p_saved a) (pre ++ p_log a) in
            {| p_exc := p_exc z; p_env := p_env z; p_saved := p_saved z; p_log := p_log a ++ p_log z |}
        | Some _ => a
        end
    end.
Lemma pexec_PFor sc glob n x it b o r sv pre :
  X_s sc glob (PFor n x it b o) r sv pre =
  let '(q, sv', l) := eval_r call (look sc glob r) (globs sc glob r) it sv pre in
  match q with
  | ROk (VRange lo hi) => let z := pfloop sc glob x b o (Z.to_nat (hi - lo)) lo r sv' (pre ++ l) in
                          {| p_exc := p_exc z; p_env := p_env z; p_saved := p_saved z; p_log := l ++ p_log z |}
  | ROk _ => {| p_exc := Some (PO (FX ETypeError)); p_env := r; p_saved := sv'; p_log := l |}
  | RErr e => {| p_exc := Some (PO e); p_env := r; p_saved := sv'; p_log := l |}
  end.
Proof. reflexivity. Qed.
Lemma pexec_l_cons sc glob x u r sv pre : X_l sc glob (x :: u) r sv pre = pseq (X_s sc glob x r sv pre) (X_l sc glob u) pre.
Proof. reflexivity. Qed.
Lemma pexec_PIf sc glob n t b o r sv pre :
  X_s sc glob (PIf n t b o) r sv pre =
  let '(q, l) := eval_e t (look sc glob r) in
  match q with
  | Ok vt => let a := X_l sc glob (if truth vt then b else o) r sv (pre ++ l) in
             {| p_exc := p_exc a; p_env := p_env a; p_saved := p_saved a; p_log := l ++ p_log a |}
  | Err e => {| p_exc := Some (PO (FX e)); p_env := r; p_saved := sv; p_log := l |}
  end.
Proof. reflexivity. Qed.
Lemma pexec_PBefore sc glob n tb own r sv pre :
  X_s sc glob (PBefore n tb own) r sv pre =
  let a := X_l sc glob own r sv (pre ++ [(E_before_stmt, n, Some VNone)]) in
  {| p_exc := p_exc a; p_env := p_env a; p_saved := p_saved a; p_log := (E_before_stmt, n, Some VNone) :: p_log a |}.
Proof. reflexivity. Qed.
Lemma pexec_PGuardIf sc glob g before i p r sv pre :
  X_s sc glob (PGuardIf g before i p) r sv pre =
  if pgon pre g then
    match before with
    | Some n => let a := X_l sc glob i r sv (pre ++ [(before_event g, n, Some (cval (SBool true)))]) in
                {| p_exc := p_exc a; p_env := p_env a; p_saved := p_saved a; p_log := (before_event g, n, Some (cval (SBool true))) :: p_log a |}
    | None => X_l sc glob i r sv pre
    end
  else X_l sc glob p r sv pre.
Proof. reflexivity. Qed.
Lemma pexec_PTry sc glob b fin r sv pre :
  X_s sc glob (PTry b fin) r sv pre =
  let a := X_l sc glob b r sv pre in
  let z := X_l sc glob fin (p_env a) (p_saved a) (pre ++ p_log a) in
  {| p_exc := match p_exc z with Some x => Some x | None => p_exc a end; p_env := p_env z; p_saved := p_saved z; p_log := p_log a ++ p_log z |}.
Proof. reflexivity. Qed.
Lemma pexec_PNameTry sc glob b p r sv pre : X_s sc glob (PNameTry b p) r sv pre = X_l sc glob b r sv pre.
Proof. reflexivity. Qed.

Lemma pexec_l_single sc glob x r sv pre : X_l sc glob [x] r sv pre = X_s sc glob x r sv pre.
Proof. rewrite pexec_l_cons. unfold pseq. cbn. destruct (X_s sc glob x r sv pre) as [[e|] r' sv' l]; cbn; rewrite ?app_nil_r; reflexivity. Qed.
Lemma pexec_l_app sc glob u w : forall r sv pre, X_l sc glob (u ++ w) r sv pre = pseq (X_l sc glob u r sv pre) (X_l sc glob w) pre.
Proof.
  induction u as [|x u IH]; intros r sv pre.
  - cbn [app]. unfold pseq. cbn. rewrite app_nil_r. destruct (X_l sc glob w r sv pre); reflexivity.
  - cbn [app]. rewrite !pexec_l_cons. unfold pseq at 1 3. destruct (p_exc (X_s sc glob x r sv pre)) eqn:E.
    + unfold pseq. rewrite E. reflexivity.
    + rewrite IH. unfold pseq. cbn [p_exc p_env p_saved p_log].
      destruct (p_exc (X_l sc glob u (p_env (X_s sc glob x r sv pre)) (p_saved (X_s sc glob x r sv pre)) (pre ++ p_log (X_s sc glob x r sv pre)))) eqn:E2;
        cbn [p_exc p_env p_saved p_log]; rewrite ?E2; [reflexivity|].
      rewrite !app_assoc. reflexivity.
Qed.

(* the reference, statement by statement *)
Definition ebw (n : N) : entry := (E_before_while_loop_body, n, Some (cval (SBool true))).
Definition eaw (n : N) : entry := (E_after_while_loop_iter, n, Some VNone).
Definition prloop (quiet : bool) (sc : scope) (glob : env) (n : N) (t : texpr) (b o : list pstmt) :=
  fix loop (f : nat) (r : env) (pre : list entry) {struct f} : prres :=
    match f with
    | O => {| pr_exc := Some (PO FFuel); pr_env := r; pr_log := [] |}
    | S f' =>
        let '(q, l) := ref_e t (look sc glob r) in
        let loud_t := negb quiet && (negb ge || pgon pre (GTest n)) in
        let lt := if loud_t then l ++ emitted E_after_while_test n q else [] in
        match q with
        | Err e => {| pr_exc := Some (PO (FX e)); pr_env := r; pr_log := lt |}
        | Ok vt =>
            if truth vt then
              let loud_b := negb quiet && (negb ge || pgon (pre ++ lt) (GBody n)) in
              let lb := if loud_b then [ebw n] else [] in
              let a := R_l (negb loud_b) false sc glob b r (pre ++ lt ++ lb) in
              let la := if loud_b then [eaw n] else [] in
              match pr_exc a with
              | Some PBrk => {| pr_exc := None; pr_env := pr_env a; pr_log := lt ++ lb ++ pr_log a ++ la |}
              | None | Some PCnt =>
                  let z := loop f' (pr_env a) (pre ++ lt ++ lb ++ pr_log a ++ la) in
                  {| pr_exc := pr_exc z; pr_env := pr_env z; pr_log := lt ++ lb ++ pr_log a ++ la ++ pr_log z |}
              | Some _ => {| pr_exc := pr_exc a; pr_env := pr_env a; pr_log := lt ++ lb ++ pr_log a ++ la |}
              end
            else let a := R_l quiet false sc glob o r (pre ++ lt) in
                 {| pr_exc := pr_exc a; pr_env := pr_env a; pr_log := lt ++ pr_log a |}
        end
    end.

Definition ebf (n : N) : entry := (E_before_for_loop_body, n, Some (cval (SBool true))).
Definition eaf (n : N) : entry := (E_after_for_loop_iter, n, Some VNone).
Definition prfloop (quiet : bool) (sc : scope) (glob : env) (n x : N) (b o : list pstmt) :=
  fix floop (k : nat) (i : Z) (r : env) (pre : list entry) {struct k} : prres :=
    match k with
    | O => R_l quiet false sc glob o r pre
    | S k' =>
        let loud_b := negb quiet && (negb ge || pgon pre (GFBody n)) in
        let lb := if loud_b then [ebf n] else [] in
        let a := R_l (negb loud_b) false sc glob b (upd r x (VInt i)) (pre ++ lb) in
        let la := if loud_b then [eaf n] else [] in
        match pr_exc a with
        | Some PBrk => {| pr_exc := None; pr_env := pr_env a; pr_log := lb ++ pr_log a ++ la |}
        | None | Some PCnt =>
            let z := floop k' (i + 1)%Z (pr_env a) (pre ++ lb ++ pr_log a ++ la) in
            {| pr_exc := pr_exc z; pr_env := pr_env z; pr_log := lb ++ pr_log a ++ la ++ pr_log z |}
        | Some _ => {| pr_exc := pr_exc a; pr_env := pr_env a; pr_log := lb ++ pr_log a ++ la |}
        end
    end.

Definition pbody_of (quiet : bool) (sc : scope) (glob : env) (s : pstmt) (r : env) (pre0 : list entry) : option pexc * env * list entry * val :=
  let say := fsay quiet in
  let n := pid s in
  match s with
  | PExpr _ v => let '(q, l) := ref_r callr quiet (look sc glob r) (globs sc glob r) v pre0 in
                 (pexc_of q, r, l ++ say (emitted_r E_after_expr_stmt n q), match q with ROk x => x | RErr _ => VNone end)
  | PAssign _ xs v =>
      let '(q, l) := ref_r callr quiet (look sc glob r) (globs sc glob r) v (pre0 ++ say [(E_before_assign_rhs, rid v, None)]) in
      (pexc_of q, match q with ROk x => fold_left (fun r' y => upd r' y x) xs r | RErr _ => r end,
       say [(E_before_assign_rhs, rid v, None)] ++ l ++ say (emitted_r E_after_assign_rhs (rid v) q), VNone)
  | PPass _ => (None, r, [], VNone)
  | PBreak _ => (Some PBrk, r, [], VNone)
  | PContinue _ => (Some PCnt, r, [], VNone)
  | PIf _ t b o =>
      let '(q, l) := ref_e t (look sc glob r) in
      match q with
      | Ok vt => let l1 := say (l ++ [(E_after_if_test, n, Some vt)]) in
                 let a := R_l quiet false sc glob (if truth vt then b else o) r (pre0 ++ l1) in
                 (pr_exc a, pr_env a, l1 ++ pr_log a, VNone)
      | Err e => (Some (PO (FX e)), r, say l, VNone)
      end
  | PWhile _ t b o => let z := prloop quiet sc glob n t b o fuel r pre0 in (pr_exc z, pr_env z, pr_log z, VNone)
  | PFor _ x it b o =>
      let '(q, l) := ref_r callr quiet (look sc glob r) (globs sc glob r) it (pre0 ++ say [(E_before_for_iter, rid it, None)]) in
      let lit := say [(E_before_for_iter, rid it, None)] ++ l ++ say (emitted_r E_after_for_iter (rid it) q) in
      match q with
      | ROk (VRange lo hi) => let z := prfloop quiet sc glob n x b o (Z.to_nat (hi - lo)) lo r (pre0 ++ lit) in (pr_exc z, pr_env z, lit ++ pr_log z, VNone)
      | ROk _ => (Some (PO (FX ETypeError)), r, lit, VNone)
      | RErr e => (Some (PO e), r, lit, VNone)
      end
  | PReturn _ None => (Some (PO (FRet VNone)), r, [], VNone)
  | PReturn _ (Some v) =>
      let '(q, l) := ref_r callr quiet (look sc glob r) (globs sc glob r) v (pre0 ++ say [(E_before_return, rid v, None)]) in
      (Some (PO (match q with ROk x => FRet x | RErr e => e end)), r,
       say [(E_before_return, rid v, None)] ++ l ++ say (emitted_r E_after_return (rid v) q), VNone)
  | PDef n name _ _ => (None, upd r name (VFun n), [], VNone)
  | _ => (Some (PO (FX ETypeError)), r, [], VNone)
  end.

Lemma pref_unfold quiet m sc glob s r pre : R_s quiet m sc glob s r pre =
  let '(x, r', l, v) := pbody_of quiet sc glob s r (pre ++ fsay quiet [(E_before_stmt, pid s, Some VNone)]) in
  let after_value := if m then v else VNone in
  {| pr_exc := x; pr_env := r';
     pr_log := fsay quiet [(E_before_stmt, pid s, Some VNone)] ++ l ++
               match x with
               | Some _ => []
               | None => fsay quiet ((E_after_stmt, pid s, Some after_value) :: (if m then [(E_after_module_stmt, pid s, Some after_value)] else []))
               end |}.
Proof. destruct s; reflexivity. Qed.

Lemma pref_l_cons quiet m sc glob x u r pre :
  R_l quiet m sc glob (x :: u) r pre = prseq (R_s quiet m sc glob x r pre) (R_l quiet m sc glob u) pre.
Proof. reflexivity. Qed.

Definition psim (a : pres) (b : prres) : Prop := p_exc a = pr_exc b /\ p_env a = pr_env b /\ fl (p_log a) = fl (pr_log b).

(* ================================================================ the pristine copies: source semantics, only the callees speak.
   g' = whether nested loops of the copy keep a guarded test (the copy of a loop body, `ppr ge`) or not (the copy of a function body: `ppr false` = identity) *)
Definition pquiet_ok (g' : bool) (s : pstmt) : Prop := psrc_b s = true -> forall sc glob r sv p p', fl p = fl p' ->
  psim (X_s sc glob (ppr g' s) r sv p) (R_s true false sc glob s r p').

Lemma pquiet_list g' u : Forall (pquiet_ok g') u -> forallb psrc_b u = true -> forall sc glob r sv p p', fl p = fl p' ->
  psim (X_l sc glob (map (ppr g') u) r sv p) (R_l true false sc glob u r p').
Proof.
  induction 1 as [|x u Hx _ IH]; intros Hs sc glob r sv p p' Hp.
  - repeat split.
  - cbn [forallb] in Hs. apply andb_true_iff in Hs as [Hsx Hs]. cbn [map]. rewrite pexec_l_cons, pref_l_cons.
    destruct (Hx Hsx sc glob r sv p p' Hp) as (E1 & E2 & E3). unfold pseq, prseq. rewrite E1.
    destruct (pr_exc (R_s true false sc glob x r p')) eqn:Ex.
    + unfold psim. rewrite Ex. repeat split; assumption.
    + destruct (IH Hs sc glob (p_env (X_s sc glob (ppr g' x) r sv p)) (p_saved (X_s sc glob (ppr g' x) r sv p))
                  (p ++ p_log (X_s sc glob (ppr g' x) r sv p)) (p' ++ pr_log (R_s true false sc glob x r p')) (fl_pre _ _ _ _ Hp E3)) as (F1 & F2 & F3).
      rewrite E2 in F1, F2, F3. unfold psim. cbn [p_exc p_env p_log pr_exc pr_env pr_log]. rewrite E2. split; [exact F1|split; [exact F2|]].
      rewrite !fl_app, E3, F3. reflexivity.
Qed.

Lemma pquiet_loop g' sc glob n t b o (test : env -> list entry -> res val * list entry) :
  (forall r pre, test r pre = (fst (ref_e t (look sc glob r)), [])) ->
  Forall (pquiet_ok g') b -> Forall (pquiet_ok g') o -> forallb psrc_b b = true -> forallb psrc_b o = true ->
  forall f r sv p p', fl p = fl p' ->
  psim (ploop sc glob test (map (ppr g') b) (map (ppr g') o) f r sv p) (prloop true sc glob n t b o f r p').
Proof.
  intros Htest Fb Fo Hb Ho. induction f as [|f IH]; intros r sv p p' Hp.
  - repeat split.
  - cbn [ploop prloop]. rewrite Htest. destruct (ref_e t (look sc glob r)) as [[vt|e] l]; cbn [fst negb andb]; [|repeat split].
    destruct (truth vt).
    + assert (Hq : fl (p ++ []) = fl (p' ++ [] ++ [])) by (cbn [app]; rewrite !app_nil_r; exact Hp).
      destruct (pquiet_list g' b Fb Hb sc glob r sv _ _ Hq) as (A1 & A2 & A3).
      set (A := X_l sc glob (map (ppr g') b) r sv (p ++ [])) in *.
      set (B := R_l true false sc glob b r (p' ++ [] ++ [])) in *.
      rewrite A1.
      assert (Hcont : psim (let z := ploop sc glob test (map (ppr g') b) (map (ppr g') o) f (p_env A) (p_saved A) (p ++ [] ++ p_log A) in
                            {| p_exc := p_exc z; p_env := p_env z; p_saved := p_saved z; p_log := [] ++ p_log A ++ p_log z |})
                           (let z := prloop true sc glob n t b o f (pr_env B) (p' ++ [] ++ [] ++ pr_log B ++ []) in
                            {| pr_exc := pr_exc z; pr_env := pr_env z; pr_log := [] ++ [] ++ pr_log B ++ [] ++ pr_log z |})).
      { cbv zeta. assert (Hn : fl (p ++ [] ++ p_log A) = fl (p' ++ [] ++ [] ++ pr_log B ++ [])).
        { cbn [app]. rewrite app_nil_r. apply fl_pre; assumption. }
        destruct (IH (p_env A) (p_saved A) _ _ Hn) as (J1 & J2 & J3). rewrite A2 in J1, J2, J3.
        unfold psim. cbn [p_exc p_env p_log pr_exc pr_env pr_log]. rewrite A2. repeat split; try assumption.
        rewrite !fl_app, !fl_nil, A3, J3. reflexivity. }
      destruct (pr_exc B) as [[x| |]|] eqn:Ex; try exact Hcont;
        unfold psim; cbn [p_exc p_env p_log pr_exc pr_env pr_log app]; repeat split; try assumption; try reflexivity;
        rewrite ?app_nil_r; exact A3.
    + assert (Hq : fl (p ++ []) = fl (p' ++ [])) by (rewrite !app_nil_r; exact Hp).
      destruct (pquiet_list g' o Fo Ho sc glob r sv _ _ Hq) as (A1 & A2 & A3).
      unfold psim. cbn [p_exc p_env p_log pr_exc pr_env pr_log app]. repeat split; assumption.
Qed.

Lemma pquiet_floop g' sc glob n x b o :
  Forall (pquiet_ok g') b -> Forall (pquiet_ok g') o -> forallb psrc_b b = true -> forallb psrc_b o = true ->
  forall k i r sv p p', fl p = fl p' ->
  psim (pfloop sc glob x (map (ppr g') b) (map (ppr g') o) k i r sv p) (prfloop true sc glob n x b o k i r p').
Proof.
  intros Fb Fo Hb Ho. induction k as [|k IH]; intros i r sv p p' Hp.
  - cbn [pfloop prfloop]. apply (pquiet_list g' o Fo Ho). exact Hp.
  - cbn [pfloop prfloop negb andb app].
    assert (Hq : fl p = fl (p' ++ [])) by (rewrite app_nil_r; exact Hp).
    destruct (pquiet_list g' b Fb Hb sc glob (upd r x (VInt i)) sv _ _ Hq) as (A1 & A2 & A3).
    set (A := X_l sc glob (map (ppr g') b) (upd r x (VInt i)) sv p) in *.
    set (B := R_l true false sc glob b (upd r x (VInt i)) (p' ++ [])) in *.
    rewrite A1.
    assert (Hcont : psim (let z := pfloop sc glob x (map (ppr g') b) (map (ppr g') o) k (i + 1)%Z (p_env A) (p_saved A) (p ++ p_log A) in
                          {| p_exc := p_exc z; p_env := p_env z; p_saved := p_saved z; p_log := p_log A ++ p_log z |})
                         (let z := prfloop true sc glob n x b o k (i + 1)%Z (pr_env B) (p' ++ [] ++ pr_log B ++ []) in
                          {| pr_exc := pr_exc z; pr_env := pr_env z; pr_log := [] ++ pr_log B ++ [] ++ pr_log z |})).
    { cbv zeta. assert (Hn : fl (p ++ p_log A) = fl (p' ++ [] ++ pr_log B ++ [])).
      { cbn [app]. rewrite app_nil_r. apply fl_pre; assumption. }
      destruct (IH (i + 1)%Z (p_env A) (p_saved A) _ _ Hn) as (J1 & J2 & J3). rewrite A2 in J1, J2, J3.
      unfold psim. cbn [p_exc p_env p_log pr_exc pr_env pr_log]. rewrite A2. repeat split; try assumption.
      rewrite !fl_app, !fl_nil, A3, J3. reflexivity. }
    destruct (pr_exc B) as [[e| |]|] eqn:Ex; try exact Hcont;
      unfold psim; cbn [p_exc p_env p_log pr_exc pr_env pr_log app]; repeat split; try assumption; try reflexivity;
      rewrite ?app_nil_r; exact A3.
Qed.

Theorem pquiet_stmt g' : forall s, pquiet_ok g' s.
Proof.
  induction s using pstmt_ind'; intros Hs sc glob r sv pa pb Hp; try discriminate Hs; cbn [psrc_b] in Hs; rewrite pref_unfold; cbn [fsay app pid pbody_of ppr].
  - (* expression statement *)
    assert (Hp0 : fl pa = fl (pb ++ [])) by (rewrite app_nil_r; exact Hp).
    destruct (Rquiet v Hs (look sc glob r) (globs sc glob r) sv pa _ Hp0) as [A1 A2]. cbn [FragProg.pexec_s].
    destruct (eval_r call _ _ v sv pa) as [[q sv'] l]. destruct (ref_r callr true _ _ v _) as [q' l']. cbn [fst snd] in A1, A2. subst q'.
    unfold psim. cbn [p_exc p_env p_log pr_exc pr_env pr_log]. repeat split. rewrite !app_nil_r. destruct q; cbn [pexc_of]; rewrite ?app_nil_r; exact A2.
  - (* assignment *)
    assert (Hp0 : fl pa = fl ((pb ++ []) ++ [])) by (rewrite !app_nil_r; exact Hp).
    destruct (Rquiet v Hs (look sc glob r) (globs sc glob r) sv pa _ Hp0) as [A1 A2]. cbn [FragProg.pexec_s].
    destruct (eval_r call _ _ v sv pa) as [[q sv'] l]. destruct (ref_r callr true _ _ v _) as [q' l']. cbn [fst snd] in A1, A2. subst q'.
    unfold psim. destruct q; cbn [p_exc p_env p_log pr_exc pr_env pr_log pexc_of app]; rewrite ?app_nil_r; repeat split; exact A2.
  - repeat split.
  - (* if *)
    apply andb_true_iff in Hs as [Hs Ho]. apply andb_true_iff in Hs as [Ht Hb].
    rewrite pexec_PIf, (eval_src t _ Ht). destruct (ref_e t (look sc glob r)) as [[vt|e] l]; cbn [fst snd].
    + unfold psim. cbn [p_exc p_env p_log pr_exc pr_env pr_log app]. rewrite ?app_nil_r.
      assert (HB : psim (X_l sc glob (if truth vt then map (ppr g') b else map (ppr g') o) r sv pa) (R_l true false sc glob (if truth vt then b else o) r pb)).
      { destruct (truth vt); [apply (pquiet_list g' b H Hb)|apply (pquiet_list g' o H0 Ho)]; exact Hp. }
      destruct HB as (B1 & B2 & B3).
      destruct (pr_exc (R_l true false sc glob (if truth vt then b else o) r pb)); repeat split; try assumption; rewrite ?app_nil_r; exact B3.
    + repeat split.
  - (* while *)
    apply andb_true_iff in Hs as [Hs Ho]. apply andb_true_iff in Hs as [Ht Hb].
    unfold psim. cbn [p_exc p_env p_log pr_exc pr_env pr_log app]. rewrite ?app_nil_r.
    assert (Q : psim (X_s sc glob (if g' then PWhileG n (GTest n) t t (map (ppr g') b) (map (ppr g') o) else PWhile n t (map (ppr g') b) (map (ppr g') o)) r sv pa)
                     (prloop true sc glob n t b o fuel r pb)).
    { destruct g'; [rewrite pexec_PWhileG|rewrite pexec_PWhile]; apply pquiet_loop; try assumption; intros r0 pre0; rewrite ?(eval_src t _ Ht);
        try reflexivity. destruct (pgon pre0 (GTest n)); reflexivity. }
    destruct Q as (A1 & A2 & A3).
    destruct (pr_exc (prloop true sc glob n t b o fuel r pb)); repeat split; try assumption; rewrite ?app_nil_r; exact A3.
  - (* for *)
    apply andb_true_iff in Hs as [Hs Ho]. apply andb_true_iff in Hs as [Hi Hb].
    assert (Hp0 : fl pa = fl ((pb ++ []) ++ [])) by (rewrite !app_nil_r; exact Hp).
    rewrite pexec_PFor.
    destruct (Rquiet it Hi (look sc glob r) (globs sc glob r) sv pa _ Hp0) as [A1 A2].
    destruct (eval_r call _ _ it sv pa) as [[q sv'] l]. destruct (ref_r callr true _ _ it _) as [q' l']. cbn [fst snd] in A1, A2. subst q'.
    destruct q as [v|e]; [|unfold psim; cbn [p_exc p_env p_log pr_exc pr_env pr_log]; rewrite ?app_nil_r; repeat split; exact A2].
    destruct v; try (unfold psim; cbn [p_exc p_env p_log pr_exc pr_env pr_log emitted_r]; rewrite ?app_nil_r; repeat split; exact A2).
    unfold psim. cbn [p_exc p_env p_log pr_exc pr_env pr_log emitted_r app]. rewrite ?app_nil_r.
    assert (Hq : fl (pa ++ l) = fl (pb ++ l')) by (apply fl_pre; assumption).
    destruct (pquiet_floop g' sc glob n x b o H H0 Hb Ho (Z.to_nat (b0 - a)) a r sv' _ _ Hq) as (F1 & F2 & F3).
    destruct (pr_exc (prfloop true sc glob n x b o (Z.to_nat (b0 - a)) a r (pb ++ l'))) eqn:Ex;
      repeat split; try assumption; rewrite ?app_nil_r, !fl_app, A2, F3; reflexivity.
  - repeat split.
  - repeat split.
  - (* return *)
    destruct v as [v|]; [|repeat split].
    assert (Hp0 : fl pa = fl ((pb ++ []) ++ [])) by (rewrite !app_nil_r; exact Hp).
    destruct (Rquiet v Hs (look sc glob r) (globs sc glob r) sv pa _ Hp0) as [A1 A2]. cbn [FragProg.pexec_s].
    destruct (eval_r call _ _ v sv pa) as [[q sv'] l]. destruct (ref_r callr true _ _ v _) as [q' l']. cbn [fst snd] in A1, A2. subst q'.
    unfold psim. cbn [p_exc p_env p_log pr_exc pr_env pr_log app]. rewrite !app_nil_r. repeat split. exact A2.
Qed.

Lemma pquiet_all g' u : Forall (pquiet_ok g') u.
Proof. apply Forall_forall. intros s _. apply pquiet_stmt. Qed.

Lemma ppr_false_list (u : list pstmt) : Forall (fun s => ppr false s = s) u -> map (ppr false) u = u.
Proof. induction 1 as [|x u Hx _ IH]; [reflexivity|]. cbn [map]. rewrite Hx, IH. reflexivity. Qed.
Lemma ppr_false : forall s, ppr false s = s.
Proof.
  induction s using pstmt_ind'; cbn [ppr]; try reflexivity.
  - rewrite (ppr_false_list b H), (ppr_false_list o H0). reflexivity.
  - rewrite (ppr_false_list b H), (ppr_false_list o H0). reflexivity.
  - rewrite (ppr_false_list b H), (ppr_false_list o H0). reflexivity.
Qed.
Lemma ppr_false_map u : map (ppr false) u = u.
Proof. apply ppr_false_list. apply Forall_forall. intros s _. apply ppr_false. Qed.

(* ================================================================ the instrumented statements against the loud reference *)
Definition ploud_ok (s : pstmt) : Prop := psrc_t s = true -> forall m sc glob r sv p p', fl p = fl p' ->
  psim (X_l sc glob (pis c ge m s) r sv p) (R_s false m sc glob s r p').

Lemma ploud_list u : Forall ploud_ok u -> forallb psrc_t u = true -> forall m sc glob r sv p p', fl p = fl p' ->
  psim (X_l sc glob (flat_map (pis c ge m) u) r sv p) (R_l false m sc glob u r p').
Proof.
  induction 1 as [|x u Hx _ IH]; intros Hs m sc glob r sv p p' Hp.
  - repeat split.
  - cbn [forallb] in Hs. apply andb_true_iff in Hs as [Hsx Hs].
    cbn [flat_map]. rewrite pexec_l_app, pref_l_cons.
    destruct (Hx Hsx m sc glob r sv p p' Hp) as (E1 & E2 & E3). unfold pseq, prseq. rewrite E1.
    destruct (pr_exc (R_s false m sc glob x r p')) eqn:Ex.
    + unfold psim. rewrite Ex. repeat split; assumption.
    + destruct (IH Hs m sc glob (p_env (X_l sc glob (pis c ge m x) r sv p)) (p_saved (X_l sc glob (pis c ge m x) r sv p))
                  (p ++ p_log (X_l sc glob (pis c ge m x) r sv p)) (p' ++ pr_log (R_s false m sc glob x r p')) (fl_pre _ _ _ _ Hp E3)) as (F1 & F2 & F3).
      rewrite E2 in F1, F2, F3. unfold psim. cbn [p_exc p_env p_log pr_exc pr_env pr_log]. rewrite E2. split; [exact F1|split; [exact F2|]].
      rewrite !fl_app, E3, F3. reflexivity.
Qed.

Lemma psrc_b_t u : forallb psrc_b u = true -> forallb psrc_t u = true.
Proof.
  induction u as [|x u IH]; [reflexivity|]. cbn [forallb]. intros H. apply andb_true_iff in H as [Hx Hu]. rewrite (IH Hu), andb_true_r.
  destruct x; try exact Hx; discriminate Hx.
Qed.


(* ---- one loop, given its sub-statements *)
Section OneLoop.
Variables (n : N) (t : texpr) (b o : list pstmt).
Hypothesis Ht : src_e t = true.
Hypothesis Hb : forallb psrc_b b = true.
Hypothesis Ho : forallb psrc_b o = true.
Hypothesis Fb : Forall ploud_ok b.
Hypothesis Fo : Forall ploud_ok o.
Variables (sc : scope) (glob : env).

Definition W_t' := wrap c E_after_while_test n (ie c t).
Definition W_b' := flat_map (pis c ge false) b.
Definition W_o' := flat_map (pis c ge false) o.
Definition W_after := if sub c E_after_while_loop_iter
                      then [PTry W_b' [PEmit E_after_while_loop_iter n None (Some (if ge then Some (GBody n) else None))]] else W_b'.
Definition W_body := if ge then [PGuardIf (GBody n) (if sub c E_before_while_loop_body then Some n else None) W_after (map (ppr ge) b)]
                     else (if sub c E_before_while_loop_body then [PEmit E_before_while_loop_body n (Some (RExp (XConst 0 (SBool true)))) None] else []) ++ W_after.
Definition W_test := fun (r : env) (pre : list entry) =>
  if ge then (if pgon pre (GTest n) then eval_e W_t' (look sc glob r) else eval_e t (look sc glob r)) else eval_e W_t' (look sc glob r).

Lemma test_sim r p p' : fl p = fl p' ->
  fst (W_test r p) = fst (ref_e t (look sc glob r)) /\
  fl (snd (W_test r p)) = fl (if negb ge || pgon p' (GTest n) then snd (ref_e t (look sc glob r)) ++ emitted E_after_while_test n (fst (ref_e t (look sc glob r))) else []).
Proof.
  intros Hp. unfold W_test, W_t'. rewrite eval_wrap, (eval_ie binop cmpop unop truth cval is_and c t Ht), (eval_src t _ Ht), (pgon_fl p p' _ Hp).
  destruct (ref_e t (look sc glob r)) as [q l]. cbn [fst snd].
  destruct ge_cases as [E|E]; rewrite E; cbn [negb orb]; [destruct (pgon p' (GTest n))|]; cbn [fst snd]; split; try reflexivity;
    rewrite ?fl_app, ?fl_idem, ?fl_if, ?fl_emitted, ?fl_nil; destruct (sub c E_after_while_test); reflexivity.
Qed.

Lemma after_sim r sv q q' : fl q = fl q' ->
  let A := X_l sc glob W_after r sv q in
  let a := R_l false false sc glob b r q' in
  p_exc A = pr_exc a /\ p_env A = pr_env a /\ fl (p_log A) = fl (pr_log a ++ [eaw n]).
Proof.
  intros Hq. cbv zeta. destruct (ploud_list b Fb (psrc_b_t b Hb) false sc glob r sv q q' Hq) as (E1 & E2 & E3). fold W_b' in E1, E2, E3.
  unfold W_after. destruct (sub c E_after_while_loop_iter) eqn:Ea.
  - rewrite pexec_l_single, pexec_PTry. cbv zeta. rewrite pexec_l_single. cbn [FragProg.pexec_s p_exc p_env p_saved p_log].
    repeat split; try assumption. rewrite !fl_app, E3. reflexivity.
  - repeat split; try assumption. rewrite fl_app, E3. unfold eaw. rewrite fl_single, Ea, app_nil_r. reflexivity.
Qed.

Lemma iter_sim r sv p p' : fl p = fl p' ->
  let LB := negb ge || pgon p' (GBody n) in
  let lb := if LB then [ebw n] else [] in
  let A := X_l sc glob W_body r sv p in
  let a := R_l (negb LB) false sc glob b r (p' ++ lb) in
  let la := if LB then [eaw n] else [] in
  p_exc A = pr_exc a /\ p_env A = pr_env a /\ fl (p_log A) = fl (lb ++ pr_log a ++ la).
Proof.
  intros Hp. cbv zeta. unfold W_body.
  destruct ge_cases as [E|E].
  - replace (if ge then [PGuardIf (GBody n) (if sub c E_before_while_loop_body then Some n else None) W_after (map (ppr ge) b)]
             else (if sub c E_before_while_loop_body then [PEmit E_before_while_loop_body n (Some (RExp (XConst 0 (SBool true)))) None] else []) ++ W_after)
      with [PGuardIf (GBody n) (if sub c E_before_while_loop_body then Some n else None) W_after (map (ppr ge) b)] by (rewrite E; reflexivity).
    replace (negb ge) with false by (rewrite E; reflexivity). cbn [orb].
    rewrite pexec_l_single, pexec_PGuardIf, (pgon_fl p p' _ Hp). cbn [before_event].
    destruct (pgon p' (GBody n)) eqn:G; cbn [negb].
    + destruct (sub c E_before_while_loop_body) eqn:Bf.
      * cbv zeta. match goal with |- context [X_l sc glob W_after r sv ?q] =>
          assert (Hq : fl q = fl (p' ++ [ebw n])) by (apply fl_pre; [exact Hp|reflexivity]);
          destruct (after_sim r sv q _ Hq) as (A1 & A2 & A3) end.
        cbn [p_exc p_env p_log]. repeat split; try assumption.
        cbn [app]. rewrite (fl_cons E_before_while_loop_body), A3. unfold ebw. rewrite (fl_cons E_before_while_loop_body). reflexivity.
      * assert (Hq : fl p = fl (p' ++ [ebw n])) by (rewrite fl_app, Hp; unfold ebw; rewrite fl_single, Bf, app_nil_r; reflexivity).
        destruct (after_sim r sv _ _ Hq) as (A1 & A2 & A3). unfold ebw, eaw in *. repeat split; try assumption.
        rewrite A3. cbn [app]. rewrite (fl_cons E_before_while_loop_body), Bf. reflexivity.
    + assert (Hq : fl p = fl (p' ++ [])) by (rewrite app_nil_r; exact Hp).
      destruct (pquiet_list ge b (pquiet_all ge b) Hb sc glob r sv p _ Hq) as (Q1 & Q2 & Q3).
      repeat split; try assumption. cbn [app]. rewrite app_nil_r. exact Q3.
  - replace (if ge then [PGuardIf (GBody n) (if sub c E_before_while_loop_body then Some n else None) W_after (map (ppr ge) b)]
             else (if sub c E_before_while_loop_body then [PEmit E_before_while_loop_body n (Some (RExp (XConst 0 (SBool true)))) None] else []) ++ W_after)
      with ((if sub c E_before_while_loop_body then [PEmit E_before_while_loop_body n (Some (RExp (XConst 0 (SBool true)))) None] else []) ++ W_after) by (rewrite E; reflexivity).
    replace (negb ge) with true by (rewrite E; reflexivity). cbn [orb negb].
    destruct (sub c E_before_while_loop_body) eqn:Bf.
    + cbn [app]. rewrite pexec_l_cons. unfold pseq. cbn [FragProg.pexec_s FragFun.eval_r FragSem.eval_e rr_of p_exc p_env p_saved p_log app].
      replace (event_eqb E_before_while_loop_body E_after_stmt) with false by reflexivity.
      match goal with |- context [X_l sc glob W_after r ?s0 ?q] =>
        assert (Hq : fl q = fl (p' ++ [ebw n])) by (apply fl_pre; [exact Hp|reflexivity]);
        destruct (after_sim r s0 q _ Hq) as (A1 & A2 & A3) end.
      repeat split; try assumption.
      cbn [app]. rewrite (fl_cons E_before_while_loop_body), A3. unfold ebw. rewrite (fl_cons E_before_while_loop_body). reflexivity.
    + cbn [app].
      assert (Hq : fl p = fl (p' ++ [ebw n])) by (rewrite fl_app, Hp; unfold ebw; rewrite fl_single, Bf, app_nil_r; reflexivity).
      destruct (after_sim r sv _ _ Hq) as (A1 & A2 & A3). unfold ebw, eaw in *. repeat split; try assumption.
      rewrite A3. cbn [app]. rewrite (fl_cons E_before_while_loop_body), Bf. reflexivity.
Qed.

Lemma loop_sim : forall f r sv p p', fl p = fl p' ->
  psim (ploop sc glob W_test W_body W_o' f r sv p) (prloop false sc glob n t b o f r p').
Proof.
  induction f as [|f IH]; intros r sv p p' Hp.
  - repeat split.
  - cbn [ploop prloop]. cbn [negb andb].
    destruct (test_sim r p p' Hp) as (T1 & T2).
    destruct (W_test r p) as [q LT]. destruct (ref_e t (look sc glob r)) as [q0 l]. cbn [fst snd] in T1, T2. subst q0.
    set (lt := if negb ge || pgon p' (GTest n) then l ++ emitted E_after_while_test n q else []) in *.
    destruct q as [vt|e]; [|repeat split; exact T2].
    assert (Hq : fl (p ++ LT) = fl (p' ++ lt)) by (apply fl_pre; assumption).
    destruct (truth vt).
    + pose proof (iter_sim r sv (p ++ LT) (p' ++ lt) Hq) as HI. cbv zeta in HI.
      set (LB := negb ge || pgon (p' ++ lt) (GBody n)) in *.
      set (lb := if LB then [ebw n] else []) in *.
      set (la := if LB then [eaw n] else []) in *.
      replace (p' ++ lt ++ lb) with ((p' ++ lt) ++ lb) by (rewrite app_assoc; reflexivity).
      destruct HI as (I1 & I2 & I3).
      set (A := X_l sc glob W_body r sv (p ++ LT)) in *.
      set (a := R_l (negb LB) false sc glob b r ((p' ++ lt) ++ lb)) in *.
      rewrite I1.
      assert (Hcont : psim (let z := ploop sc glob W_test W_body W_o' f (p_env A) (p_saved A) (p ++ LT ++ p_log A) in
                            {| p_exc := p_exc z; p_env := p_env z; p_saved := p_saved z; p_log := LT ++ p_log A ++ p_log z |})
                           (let z := prloop false sc glob n t b o f (pr_env a) (p' ++ lt ++ lb ++ pr_log a ++ la) in
                            {| pr_exc := pr_exc z; pr_env := pr_env z; pr_log := lt ++ lb ++ pr_log a ++ la ++ pr_log z |})).
      { cbv zeta. assert (Hn : fl (p ++ LT ++ p_log A) = fl (p' ++ lt ++ lb ++ pr_log a ++ la)).
        { rewrite !fl_app, Hp, T2, I3, !fl_app. reflexivity. }
        destruct (IH (p_env A) (p_saved A) _ _ Hn) as (J1 & J2 & J3). rewrite I2 in J1, J2, J3.
        unfold psim. cbn [p_exc p_env p_log pr_exc pr_env pr_log]. rewrite I2. repeat split; try assumption.
        rewrite !fl_app, T2, I3, J3, !fl_app, <- !app_assoc. reflexivity. }
      destruct (pr_exc a) as [[x| |]|] eqn:Ex; try exact Hcont;
        unfold psim; cbn [p_exc p_env p_log pr_exc pr_env pr_log]; repeat split; try assumption; try reflexivity;
        rewrite !fl_app, T2, I3, !fl_app; reflexivity.
    + destruct (ploud_list o Fo (psrc_b_t o Ho) false sc glob r sv (p ++ LT) (p' ++ lt) Hq) as (O1 & O2 & O3). fold W_o' in O1, O2, O3.
      unfold psim. cbn [p_exc p_env p_log pr_exc pr_env pr_log]. repeat split; try assumption.
      rewrite !fl_app, T2, O3. reflexivity.
Qed.

Definition W_main : pstmt := if ge then PWhileG n (GTest n) W_t' t W_body W_o' else PWhile n W_t' W_body W_o'.
Lemma main_exec r sv p : X_s sc glob W_main r sv p = ploop sc glob W_test W_body W_o' fuel r sv p.
Proof.
  unfold W_main, W_test. destruct ge_cases as [E|E]; rewrite E; [rewrite pexec_PWhileG|rewrite pexec_PWhile]; reflexivity.
Qed.
End OneLoop.


(* ---- one for loop, given its sub-statements *)
Section OneFor.
Variables (n x : N) (b o : list pstmt).
Hypothesis Hb : forallb psrc_b b = true.
Hypothesis Ho : forallb psrc_b o = true.
Hypothesis Fb : Forall ploud_ok b.
Hypothesis Fo : Forall ploud_ok o.
Variables (sc : scope) (glob : env).

Definition F_b' := flat_map (pis c ge false) b.
Definition F_o' := flat_map (pis c ge false) o.
Definition F_after := if sub c E_after_for_loop_iter
                      then [PTry F_b' [PEmit E_after_for_loop_iter n None (Some (if ge then Some (GFBody n) else None))]] else F_b'.
Definition F_body := if ge then [PGuardIf (GFBody n) (if sub c E_before_for_loop_body then Some n else None) F_after (map (ppr ge) b)]
                     else (if sub c E_before_for_loop_body then [PEmit E_before_for_loop_body n (Some (RExp (XConst 0 (SBool true)))) None] else []) ++ F_after.

Lemma fafter_sim r sv q q' : fl q = fl q' ->
  let A := X_l sc glob F_after r sv q in
  let a := R_l false false sc glob b r q' in
  p_exc A = pr_exc a /\ p_env A = pr_env a /\ fl (p_log A) = fl (pr_log a ++ [eaf n]).
Proof.
  intros Hq. cbv zeta. destruct (ploud_list b Fb (psrc_b_t b Hb) false sc glob r sv q q' Hq) as (E1 & E2 & E3). fold F_b' in E1, E2, E3.
  unfold F_after. destruct (sub c E_after_for_loop_iter) eqn:Ea.
  - rewrite pexec_l_single, pexec_PTry. cbv zeta. rewrite pexec_l_single. cbn [FragProg.pexec_s p_exc p_env p_saved p_log].
    repeat split; try assumption. rewrite !fl_app, E3. reflexivity.
  - repeat split; try assumption. rewrite fl_app, E3. unfold eaf. rewrite fl_single, Ea, app_nil_r. reflexivity.
Qed.

Lemma fiter_sim r sv p p' : fl p = fl p' ->
  let LB := negb ge || pgon p' (GFBody n) in
  let lb := if LB then [ebf n] else [] in
  let A := X_l sc glob F_body r sv p in
  let a := R_l (negb LB) false sc glob b r (p' ++ lb) in
  let la := if LB then [eaf n] else [] in
  p_exc A = pr_exc a /\ p_env A = pr_env a /\ fl (p_log A) = fl (lb ++ pr_log a ++ la).
Proof.
  intros Hp. cbv zeta. unfold F_body.
  destruct ge_cases as [E|E].
  - replace (if ge then [PGuardIf (GFBody n) (if sub c E_before_for_loop_body then Some n else None) F_after (map (ppr ge) b)]
             else (if sub c E_before_for_loop_body then [PEmit E_before_for_loop_body n (Some (RExp (XConst 0 (SBool true)))) None] else []) ++ F_after)
      with [PGuardIf (GFBody n) (if sub c E_before_for_loop_body then Some n else None) F_after (map (ppr ge) b)] by (rewrite E; reflexivity).
    replace (negb ge) with false by (rewrite E; reflexivity). cbn [orb].
    rewrite pexec_l_single, pexec_PGuardIf, (pgon_fl p p' _ Hp). cbn [before_event].
    destruct (pgon p' (GFBody n)) eqn:G; cbn [negb].
    + destruct (sub c E_before_for_loop_body) eqn:Bf.
      * cbv zeta. match goal with |- context [X_l sc glob F_after r sv ?q] =>
          assert (Hq : fl q = fl (p' ++ [ebf n])) by (apply fl_pre; [exact Hp|reflexivity]);
          destruct (fafter_sim r sv q _ Hq) as (A1 & A2 & A3) end.
        cbn [p_exc p_env p_log]. repeat split; try assumption.
        cbn [app]. rewrite (fl_cons E_before_for_loop_body), A3. unfold ebf. rewrite (fl_cons E_before_for_loop_body). reflexivity.
      * assert (Hq : fl p = fl (p' ++ [ebf n])) by (rewrite fl_app, Hp; unfold ebf; rewrite fl_single, Bf, app_nil_r; reflexivity).
        destruct (fafter_sim r sv _ _ Hq) as (A1 & A2 & A3). unfold ebf, eaf in *. repeat split; try assumption.
        rewrite A3. cbn [app]. rewrite (fl_cons E_before_for_loop_body), Bf. reflexivity.
    + assert (Hq : fl p = fl (p' ++ [])) by (rewrite app_nil_r; exact Hp).
      destruct (pquiet_list ge b (pquiet_all ge b) Hb sc glob r sv p _ Hq) as (Q1 & Q2 & Q3).
      repeat split; try assumption. cbn [app]. rewrite app_nil_r. exact Q3.
  - replace (if ge then [PGuardIf (GFBody n) (if sub c E_before_for_loop_body then Some n else None) F_after (map (ppr ge) b)]
             else (if sub c E_before_for_loop_body then [PEmit E_before_for_loop_body n (Some (RExp (XConst 0 (SBool true)))) None] else []) ++ F_after)
      with ((if sub c E_before_for_loop_body then [PEmit E_before_for_loop_body n (Some (RExp (XConst 0 (SBool true)))) None] else []) ++ F_after) by (rewrite E; reflexivity).
    replace (negb ge) with true by (rewrite E; reflexivity). cbn [orb negb].
    destruct (sub c E_before_for_loop_body) eqn:Bf.
    + cbn [app]. rewrite pexec_l_cons. unfold pseq. cbn [FragProg.pexec_s FragFun.eval_r FragSem.eval_e rr_of p_exc p_env p_saved p_log app].
      replace (event_eqb E_before_for_loop_body E_after_stmt) with false by reflexivity.
      match goal with |- context [X_l sc glob F_after r ?s0 ?q] =>
        assert (Hq : fl q = fl (p' ++ [ebf n])) by (apply fl_pre; [exact Hp|reflexivity]);
        destruct (fafter_sim r s0 q _ Hq) as (A1 & A2 & A3) end.
      repeat split; try assumption.
      cbn [app]. rewrite (fl_cons E_before_for_loop_body), A3. unfold ebf. rewrite (fl_cons E_before_for_loop_body). reflexivity.
    + cbn [app].
      assert (Hq : fl p = fl (p' ++ [ebf n])) by (rewrite fl_app, Hp; unfold ebf; rewrite fl_single, Bf, app_nil_r; reflexivity).
      destruct (fafter_sim r sv _ _ Hq) as (A1 & A2 & A3). unfold ebf, eaf in *. repeat split; try assumption.
      rewrite A3. cbn [app]. rewrite (fl_cons E_before_for_loop_body), Bf. reflexivity.
Qed.

Lemma floop_sim : forall k i r sv p p', fl p = fl p' ->
  psim (pfloop sc glob x F_body F_o' k i r sv p) (prfloop false sc glob n x b o k i r p').
Proof.
  induction k as [|k IH]; intros i r sv p p' Hp.
  - cbn [pfloop prfloop]. apply (ploud_list o Fo (psrc_b_t o Ho)). exact Hp.
  - cbn [pfloop prfloop]. cbn [negb andb].
    pose proof (fiter_sim (upd r x (VInt i)) sv p p' Hp) as HI. cbv zeta in HI.
    set (LB := negb ge || pgon p' (GFBody n)) in *.
    set (lb := if LB then [ebf n] else []) in *.
    set (la := if LB then [eaf n] else []) in *.
    destruct HI as (I1 & I2 & I3).
    set (A := X_l sc glob F_body (upd r x (VInt i)) sv p) in *.
    set (a := R_l (negb LB) false sc glob b (upd r x (VInt i)) (p' ++ lb)) in *.
    rewrite I1.
    assert (Hcont : psim (let z := pfloop sc glob x F_body F_o' k (i + 1)%Z (p_env A) (p_saved A) (p ++ p_log A) in
                          {| p_exc := p_exc z; p_env := p_env z; p_saved := p_saved z; p_log := p_log A ++ p_log z |})
                         (let z := prfloop false sc glob n x b o k (i + 1)%Z (pr_env a) (p' ++ lb ++ pr_log a ++ la) in
                          {| pr_exc := pr_exc z; pr_env := pr_env z; pr_log := lb ++ pr_log a ++ la ++ pr_log z |})).
    { cbv zeta. assert (Hn : fl (p ++ p_log A) = fl (p' ++ lb ++ pr_log a ++ la)) by (apply fl_pre; assumption).
      destruct (IH (i + 1)%Z (p_env A) (p_saved A) _ _ Hn) as (J1 & J2 & J3). rewrite I2 in J1, J2, J3.
      unfold psim. cbn [p_exc p_env p_log pr_exc pr_env pr_log]. rewrite I2. repeat split; try assumption.
      rewrite !fl_app, I3, J3, !fl_app, <- !app_assoc. reflexivity. }
    destruct (pr_exc a) as [[e| |]|] eqn:Ex; try exact Hcont;
      unfold psim; cbn [p_exc p_env p_log pr_exc pr_env pr_log]; repeat split; try assumption; try reflexivity.
Qed.
End OneFor.

(* ---- statements *)
Definition pmain_of (s : pstmt) : pstmt :=
  match s with
  | PExpr n r => PExpr n (wrapR c E_after_expr_stmt n (ir c r))
  | PAssign n xs r => PAssign n xs (wrapR c E_after_assign_rhs (rid r) (defR c E_before_assign_rhs (rid r) (ir c r)))
  | PIf n t b o => PIf n (wrap c E_after_if_test n (ie c t)) (flat_map (pis c ge false) b) (flat_map (pis c ge false) o)
  | PWhile n t b o => W_main n t b o
  | PFor n x it b o => PFor n x (wrapR c E_after_for_iter (rid it) (defR c E_before_for_iter (rid it) (ir c it))) (F_body n b) (F_o' o)
  | PReturn n (Some r) => PReturn n (Some (wrapR c E_after_return (rid r) (defR c E_before_return (rid r) (ir c r))))
  | PDef n name ps body =>
      let b' := flat_map (pis c ge false) body in
      let with_after := if sub c E_after_function_execution
                        then [PTry b' [PEmit E_after_function_execution n None (Some (if ge then Some (GFun n) else None))]]
                        else b' in
      PDef n name ps
        [PNameTry
           (if ge then [PGuardIf (GFun n) (if sub c E_before_function_body then Some n else None) with_after body]
            else (if sub c E_before_function_body then [PEmit E_before_function_body n (Some (RExp (XConst 0 (SBool true)))) None] else []) ++ with_after)
           body]
  | other => other
  end.
Definition p_is_expr (s : pstmt) : bool := match s with PExpr _ _ => true | _ => false end.
Definition pmvalue (s : pstmt) : rhs := match pmain_of s with PExpr _ v => v | _ => RExp XThunkCall end.
Definition pwants (m : bool) : bool := sub c E_after_stmt || (sub c E_after_module_stmt && m).
Definition pown_of (m : bool) (s : pstmt) : list pstmt :=
  match s with
  | PReturn _ _ => [pmain_of s]
  | _ => pmain_and_after (pwants m) m (pid s) (pmain_of s) (p_is_expr s) (pmvalue s)
  end.
Definition pbst (s : pstmt) : entry := (E_before_stmt, pid s, Some VNone).
Definition pthunk_branch (m : bool) (s : pstmt) : list pstmt :=
  pmain_and_after (pwants m) m (pid s) (PExpr 0 (RExp XThunkCall)) true (RExp XThunkCall).

Lemma pis_unfold m s : pis c ge m s =
  let expanded := if sub c E_before_stmt then [PBefore (pid s) (pthunk_branch m s) (pown_of m s)] else pown_of m s in
  if m && sub c E_after_module_stmt then expanded ++ [PEmit E_after_module_stmt (pid s) (Some (RExp (XLoadSaved (pid s)))) None] else expanded.
Proof.
  destruct s; try reflexivity.
  - unfold pown_of, pmvalue, pmain_of, W_main, W_body, W_after, W_t', W_b', W_o'. cbn [pis pid].
    destruct ge_cases as [E|E]; rewrite E; reflexivity.
  - unfold pown_of, pmvalue, pmain_of, F_body, F_after, F_b', F_o'. cbn [pis pid].
    destruct ge_cases as [E|E]; rewrite E; reflexivity.
Qed.

Definition pmain_ok (s : pstmt) : Prop := forall sc glob r sv pm pr_, fl pm = fl (pr_ ++ [pbst s]) ->
  let A := X_s sc glob (pmain_of s) r sv pm in
  let '(x, r', l, v) := pbody_of false sc glob s r (pr_ ++ [pbst s]) in
  p_exc A = x /\ p_env A = r' /\ fl (p_log A) = fl l.

Lemma pmain_ok_expr n v : src_r v = true -> pmain_ok (PExpr n v).
Proof.
  intros Hs sc glob r sv pm pr_ Hp. cbn [pmain_of pbody_of FragProg.pexec_s pid fsay]. rewrite EwrapR.
  destruct (Rloud v Hs (look sc glob r) (globs sc glob r) sv pm _ Hp) as [A1 A2].
  destruct (eval_r call _ _ (ir c v) sv pm) as [[q sv'] l]. destruct (ref_r callr false _ _ v _) as [q' l']. cbn [fst snd] in A1, A2. subst q'.
  cbn [p_exc p_env p_log]. repeat split. rewrite !fl_app, A2. fin.
Qed.

Lemma pmain_ok_assign n xs v : src_r v = true -> pmain_ok (PAssign n xs v).
Proof.
  intros Hs sc glob r sv pm pr_ Hp. cbn [pmain_of pbody_of FragProg.pexec_s pid fsay]. rewrite EwrapR.
  destruct (EdefR E_before_assign_rhs (rid v) (ir c v) (look sc glob r) (globs sc glob r) sv pm) as (p2 & Hp2 & ->).
  assert (HP : fl p2 = fl ((pr_ ++ [pbst (PAssign n xs v)]) ++ [(E_before_assign_rhs, rid v, None)])).
  { rewrite Hp2. apply fl_pre; [exact Hp|reflexivity]. }
  destruct (Rloud v Hs (look sc glob r) (globs sc glob r) sv p2 _ HP) as [A1 A2].
  destruct (eval_r call _ _ (ir c v) sv p2) as [[q sv'] l]. destruct (ref_r callr false _ _ v _) as [q' l']. cbn [fst snd] in A1, A2. subst q'.
  destruct q; cbn [p_exc p_env p_log pexc_of]; repeat split; rewrite !fl_app, A2; fin.
Qed.

Lemma pmain_ok_return n v : (match v with Some r => src_r r | None => true end) = true -> pmain_ok (PReturn n v).
Proof.
  intros Hs sc glob r sv pm pr_ Hp. destruct v as [v|]; [|cbn; repeat split].
  cbn [pmain_of pbody_of FragProg.pexec_s pid fsay]. rewrite EwrapR.
  destruct (EdefR E_before_return (rid v) (ir c v) (look sc glob r) (globs sc glob r) sv pm) as (p2 & Hp2 & ->).
  assert (HP : fl p2 = fl ((pr_ ++ [pbst (PReturn n (Some v))]) ++ [(E_before_return, rid v, None)])).
  { rewrite Hp2. apply fl_pre; [exact Hp|reflexivity]. }
  destruct (Rloud v Hs (look sc glob r) (globs sc glob r) sv p2 _ HP) as [A1 A2].
  destruct (eval_r call _ _ (ir c v) sv p2) as [[q sv'] l]. destruct (ref_r callr false _ _ v _) as [q' l']. cbn [fst snd] in A1, A2. subst q'.
  cbn [p_exc p_env p_log]. repeat split; rewrite !fl_app, A2; fin.
Qed.

Lemma pmain_ok_pass n : pmain_ok (PPass n).
Proof. intros sc glob r sv pm pr_ _. cbn. repeat split. Qed.
Lemma pmain_ok_break n : pmain_ok (PBreak n).
Proof. intros sc glob r sv pm pr_ _. cbn. repeat split. Qed.
Lemma pmain_ok_continue n : pmain_ok (PContinue n).
Proof. intros sc glob r sv pm pr_ _. cbn. repeat split. Qed.
Lemma pmain_ok_def n name ps body : pmain_ok (PDef n name ps body).
Proof. intros sc glob r sv pm pr_ _. cbn. repeat split. Qed.

Lemma pmain_ok_if n t b o : src_e t = true -> forallb psrc_b b = true -> forallb psrc_b o = true ->
  Forall ploud_ok b -> Forall ploud_ok o -> pmain_ok (PIf n t b o).
Proof.
  intros Ht Hb Ho Fb Fo sc glob r sv pm pr_ Hp. cbn [pmain_of pbody_of pid fsay]. rewrite pexec_PIf, eval_wrap, (eval_ie _ _ _ _ _ _ c t Ht).
  destruct (ref_e t (look sc glob r)) as [[vt|e] l]; cbn [fst snd emitted p_exc p_env p_log]; [|repeat split; fin].
  set (LT := fl l ++ (if sub c E_after_if_test then [(E_after_if_test, n, Some vt)] else [])).
  set (l1 := l ++ [(E_after_if_test, n, Some vt)]).
  assert (H1 : fl LT = fl l1) by (subst LT l1; fin).
  assert (Hq : fl (pm ++ LT) = fl ((pr_ ++ [pbst (PIf n t b o)]) ++ l1)) by (apply fl_pre; [exact Hp|exact H1]).
  assert (Hl : psim (X_l sc glob (if truth vt then flat_map (pis c ge false) b else flat_map (pis c ge false) o) r sv (pm ++ LT))
                    (R_l false false sc glob (if truth vt then b else o) r ((pr_ ++ [pbst (PIf n t b o)]) ++ l1)))
    by (destruct (truth vt); [apply (ploud_list b Fb (psrc_b_t b Hb))|apply (ploud_list o Fo (psrc_b_t o Ho))]; exact Hq).
  destruct Hl as (E1 & E2 & E3). cbn [p_exc p_env p_log]. repeat split; try assumption.
  rewrite !fl_app, H1, E3. reflexivity.
Qed.

Lemma pmain_ok_while n t b o : src_e t = true -> forallb psrc_b b = true -> forallb psrc_b o = true ->
  Forall ploud_ok b -> Forall ploud_ok o -> pmain_ok (PWhile n t b o).
Proof.
  intros Ht Hb Ho Fb Fo sc glob r sv pm pr_ Hp. cbn [pmain_of pbody_of pid fsay]. rewrite main_exec.
  destruct (loop_sim n t b o Ht Hb Ho Fb Fo sc glob fuel r sv pm (pr_ ++ [pbst (PWhile n t b o)]) Hp) as (E1 & E2 & E3).
  repeat split; assumption.
Qed.

Lemma pmain_ok_for n x it b o : src_r it = true -> forallb psrc_b b = true -> forallb psrc_b o = true ->
  Forall ploud_ok b -> Forall ploud_ok o -> pmain_ok (PFor n x it b o).
Proof.
  intros Hi Hb Ho Fb Fo sc glob r sv pm pr_ Hp. cbn [pmain_of pbody_of pid fsay]. rewrite pexec_PFor, EwrapR.
  destruct (EdefR E_before_for_iter (rid it) (ir c it) (look sc glob r) (globs sc glob r) sv pm) as (p2 & Hp2 & ->).
  assert (HP : fl p2 = fl ((pr_ ++ [pbst (PFor n x it b o)]) ++ [(E_before_for_iter, rid it, None)])).
  { rewrite Hp2. apply fl_pre; [exact Hp|reflexivity]. }
  destruct (Rloud it Hi (look sc glob r) (globs sc glob r) sv p2 _ HP) as [A1 A2].
  destruct (eval_r call _ _ (ir c it) sv p2) as [[q sv'] l]. destruct (ref_r callr false _ _ it _) as [q' l']. cbn [fst snd] in A1, A2. subst q'.
  destruct q as [v|e]; [|cbn [p_exc p_env p_log emitted_r]; repeat split; rewrite !fl_app, A2; fin].
  destruct v; try (cbn [p_exc p_env p_log emitted_r]; repeat split; rewrite !fl_app, A2; fin).
  cbv zeta.
  remember (((if sub c E_before_for_iter then [(E_before_for_iter, rid it, None)] else []) ++ l) ++
            (if sub c E_after_for_iter then emitted_r E_after_for_iter (rid it) (ROk (VRange a b0)) else [])) as LI eqn:ELI.
  remember ([(E_before_for_iter, rid it, None)] ++ l' ++ emitted_r E_after_for_iter (rid it) (ROk (VRange a b0))) as lit eqn:Elit.
  assert (H1 : fl LI = fl lit) by (subst LI lit; rewrite !fl_app, A2; fin).
  assert (Hq : fl (pm ++ LI) = fl ((pr_ ++ [pbst (PFor n x it b o)]) ++ lit)) by (apply fl_pre; assumption).
  destruct (floop_sim n x b o Hb Ho Fb Fo sc glob (Z.to_nat (b0 - a)) a r sv' _ _ Hq) as (E1 & E2 & E3).
  subst LI lit. cbn [p_exc p_env p_log]. split; [exact E1|split; [exact E2|]].
  apply fl_pre; [exact H1|exact E3].
Qed.

Lemma pexec_PEmit_some e n v g sc glob r sv pre : (forall k, v <> RExp (XLoadSaved k)) ->
  X_s sc glob (PEmit e n (Some v) g) r sv pre =
  let '(q, sv', l) := eval_r call (look sc glob r) (globs sc glob r) v sv pre in
  match q with
  | ROk x => {| p_exc := None; p_env := r; p_saved := (if event_eqb e E_after_stmt then x else sv'); p_log := l ++ [(e, n, Some x)] |}
  | RErr x => {| p_exc := Some (PO x); p_env := r; p_saved := sv'; p_log := l |}
  end.
Proof. intros H. destruct v as [v| | |]; try reflexivity. destruct v; try reflexivity. exfalso. exact (H n0 eq_refl). Qed.

Lemma pwants_false m : pwants m = false -> sub c E_after_stmt = false.
Proof. unfold pwants. intros H. apply orb_false_iff in H. exact (proj1 H). Qed.

Lemma pbody_nonexpr_value sc glob s r pr_ : psrc_t s = true -> p_is_expr s = false -> snd (pbody_of false sc glob s r pr_) = VNone.
Proof.
  intros Hs He. destruct s as [k rh|k xs rh|k|k t b o|k t b o|k x it b o|k|k|k ro|k name ps body| | | | | |]; try discriminate Hs; try discriminate He; cbn [pbody_of]; try reflexivity.
  - destruct (ref_r callr false _ _ rh _); reflexivity.
  - destruct (ref_e t (look sc glob r)) as [[vt|e] l]; reflexivity.
  - destruct (ref_r callr false _ _ it _) as [[v|e] l]; [destruct v|]; reflexivity.
  - destruct ro as [v|]; [destruct (ref_r callr false _ _ v _)|]; reflexivity.
Qed.

Definition pown_concl (s : pstmt) (m : bool) (sc : scope) (glob r : env) (pr_ : list entry) (O : pres) : Prop :=
  let '(x, r', l, v) := pbody_of false sc glob s r (pr_ ++ [pbst s]) in
  let av := if m then v else VNone in
  p_exc O = x /\ p_env O = r' /\
  fl (p_log O) = fl (l ++ match x with None => [(E_after_stmt, pid s, Some av)] | Some _ => [] end) /\
  (pwants m = true -> x = None -> p_saved O = av).

Lemma pown_generic s m : psrc_t s = true -> pmain_ok s -> p_is_expr s && m = false -> forall sc glob r sv pm pr_, fl pm = fl (pr_ ++ [pbst s]) ->
  pown_concl s m sc glob r pr_ (X_l sc glob (pmain_and_after (pwants m) m (pid s) (pmain_of s) (p_is_expr s) (pmvalue s)) r sv pm).
Proof.
  intros Hs HM EM sc glob r sv pm pr_ Hp. unfold pown_concl, pmain_and_after. rewrite EM.
  specialize (HM sc glob r sv pm pr_ Hp). cbv zeta in HM.
  assert (Hav : (if m then snd (pbody_of false sc glob s r (pr_ ++ [pbst s])) else VNone) = VNone).
  { destruct m; [|reflexivity]. rewrite andb_true_r in EM. apply pbody_nonexpr_value; assumption. }
  destruct (pbody_of false sc glob s r (pr_ ++ [pbst s])) as [[[x r'] l] v] eqn:Eb. destruct HM as (A1 & A2 & A3). cbn [snd] in Hav. rewrite Hav.
  destruct (pwants m) eqn:W.
  - rewrite pexec_l_cons. unfold pseq. rewrite A1. destruct x as [e|].
    + repeat split; try assumption. rewrite A3, app_nil_r. reflexivity. intros _ H; discriminate H.
    + rewrite pexec_l_single. cbn [FragProg.pexec_s p_exc p_env p_saved p_log].
      replace (event_eqb E_after_stmt E_after_stmt) with true by reflexivity.
      repeat split; try assumption. rewrite !fl_app, A3. reflexivity.
  - pose proof (pwants_false m W) as Wa. rewrite pexec_l_single.
    repeat split; try assumption; [|intros H; discriminate H].
    rewrite fl_app, A3. destruct x; [rewrite fl_nil|rewrite fl_single, Wa]; rewrite app_nil_r; reflexivity.
Qed.

Lemma pown_ok s m : psrc_t s = true -> pmain_ok s -> forall sc glob r sv pm pr_, fl pm = fl (pr_ ++ [pbst s]) ->
  pown_concl s m sc glob r pr_ (X_l sc glob (pown_of m s) r sv pm).
Proof.
  intros Hs HM sc glob r sv pm pr_ Hp.
  destruct s as [n v|n xs v|n|n t b o|n t b o|n x it b o|n|n|n v|n name ps body| | | | | |]; try discriminate Hs.
  - (* expression statement *)
    destruct m; [|apply pown_generic; try assumption; reflexivity].
    unfold pown_concl, pown_of, pmain_and_after. cbn [psrc_t psrc_b] in Hs.
    assert (W : pwants true = true \/ pwants true = false) by (destruct (pwants true); auto). destruct W as [W|W].
    + rewrite W. cbn [p_is_expr andb pmvalue pmain_of pid pbody_of fsay].
      rewrite pexec_l_single, (pexec_PEmit_some _ _ _ _ _ _ _ _ _ (FragFunProofs.ir_not_load c E_after_expr_stmt n v Hs)), eval_wrapR.
      destruct (Rloud v Hs (look sc glob r) (globs sc glob r) sv pm _ Hp) as [A1 A2].
      destruct (eval_r call _ _ (ir c v) sv pm) as [[q sv'] l]. destruct (ref_r callr false _ _ v _) as [q' l']. cbn [fst snd] in A1, A2. subst q'.
      destruct q as [x|e]; cbn [pexc_of p_exc p_env p_log p_saved emitted_r].
      * replace (event_eqb E_after_stmt E_after_stmt) with true by reflexivity. repeat split; rewrite !fl_app, A2; fin.
      * repeat split; try (rewrite !fl_app, A2; fin). intros _ H; discriminate H.
    + rewrite W. pose proof (pwants_false true W) as Wa. specialize (HM sc glob r sv pm pr_ Hp). cbv zeta in HM.
      destruct (pbody_of false sc glob (PExpr n v) r (pr_ ++ [pbst (PExpr n v)])) as [[[x r'] l] v'] eqn:Eb. destruct HM as (A1 & A2 & A3).
      rewrite pexec_l_single. repeat split; try assumption; [|intros H; discriminate H].
      rewrite fl_app, A3. destruct x; [rewrite fl_nil|rewrite fl_single, Wa]; rewrite app_nil_r; reflexivity.
  - apply pown_generic; try assumption; reflexivity.
  - apply pown_generic; try assumption; reflexivity.
  - apply pown_generic; try assumption; reflexivity.
  - apply pown_generic; try assumption; reflexivity.
  - apply pown_generic; try assumption; reflexivity.
  - apply pown_generic; try assumption; reflexivity.
  - apply pown_generic; try assumption; reflexivity.
  - (* return: never followed by an after_stmt emission, and never ends normally *)
    specialize (HM sc glob r sv pm pr_ Hp). cbv zeta in HM. unfold pown_concl, pown_of. rewrite pexec_l_single.
    destruct v as [v|]; cbn [pbody_of pid fsay] in HM |- *.
    + destruct (ref_r callr false _ _ v _) as [q l]. destruct HM as (A1 & A2 & A3). repeat split; try assumption.
      * rewrite app_nil_r. exact A3.
      * intros _ H. discriminate H.
    + destruct HM as (A1 & A2 & A3). repeat split; try assumption. intros _ H. discriminate H.
  - apply pown_generic; try assumption; reflexivity.
Qed.

Lemma passemble s : psrc_t s = true -> pmain_ok s -> ploud_ok s.
Proof.
  intros Hs HM _ m sc glob r sv pre pre' Hp. rewrite (pis_unfold m s), pref_unfold. cbv zeta. cbn [fsay].
  assert (HX : exists E, (X_l sc glob (if sub c E_before_stmt then [PBefore (pid s) (pthunk_branch m s) (pown_of m s)] else pown_of m s) r sv pre) = E /\
               let '(x, r', l, v) := pbody_of false sc glob s r (pre' ++ [pbst s]) in
               let av := if m then v else VNone in
               p_exc E = x /\ p_env E = r' /\
               fl (p_log E) = fl ([pbst s] ++ l ++ match x with None => [(E_after_stmt, pid s, Some av)] | Some _ => [] end) /\
               (pwants m = true -> x = None -> p_saved E = av)).
  { eexists. split; [reflexivity|]. destruct (sub c E_before_stmt) eqn:Bf.
    - rewrite pexec_l_single, pexec_PBefore. cbv zeta.
      assert (Hq : fl (pre ++ [(E_before_stmt, pid s, Some VNone)]) = fl (pre' ++ [pbst s])) by (apply fl_pre; [exact Hp|reflexivity]).
      pose proof (pown_ok s m Hs HM sc glob r sv _ _ Hq) as HO. unfold pown_concl in HO.
      destruct (pbody_of false sc glob s r (pre' ++ [pbst s])) as [[[x r'] l] v]. destruct HO as (O1 & O2 & O3 & O4).
      cbn [p_exc p_env p_saved p_log]. repeat split; try assumption.
      change ((E_before_stmt, pid s, Some VNone) :: p_log (X_l sc glob (pown_of m s) r sv (pre ++ [(E_before_stmt, pid s, Some VNone)])))
        with ([pbst s] ++ p_log (X_l sc glob (pown_of m s) r sv (pre ++ [(E_before_stmt, pid s, Some VNone)]))).
      rewrite !fl_app, O3, !fl_app. reflexivity.
    - assert (Hq : fl pre = fl (pre' ++ [pbst s])) by (rewrite fl_app, Hp; unfold pbst; rewrite fl_single, Bf, app_nil_r; reflexivity).
      pose proof (pown_ok s m Hs HM sc glob r sv _ _ Hq) as HO. unfold pown_concl in HO.
      destruct (pbody_of false sc glob s r (pre' ++ [pbst s])) as [[[x r'] l] v]. destruct HO as (O1 & O2 & O3 & O4).
      repeat split; try assumption. rewrite O3, (fl_app [pbst s]). unfold pbst. rewrite fl_single, Bf. reflexivity. }
  destruct HX as (E & HE & HP). rewrite <- HE in HP. clear HE.
  set (EXP := if sub c E_before_stmt then _ else _) in *.
  change (pre' ++ [(E_before_stmt, pid s, Some VNone)]) with (pre' ++ [pbst s]).
  destruct (pbody_of false sc glob s r (pre' ++ [pbst s])) as [[[x r'] l] v]. cbv zeta in HP. destruct HP as (E1 & E2 & E4 & E3).
  set (av := if m then v else VNone) in *.
  destruct (m && sub c E_after_module_stmt) eqn:Am.
  - apply andb_true_iff in Am as [Em Ea]. subst m.
    assert (W : pwants true = true) by (unfold pwants; rewrite Ea, orb_true_r; reflexivity).
    rewrite pexec_l_app. unfold pseq. rewrite E1. destruct x as [e|].
    + unfold psim. cbn [pr_exc pr_env pr_log]. repeat split; try assumption; try (rewrite E4, ?app_nil_r; reflexivity).
    + rewrite pexec_l_single. cbn [FragProg.pexec_s p_exc p_env p_saved p_log]. unfold psim. cbn [p_exc p_env p_log pr_exc pr_env pr_log].
      repeat split; try assumption. rewrite (E3 W eq_refl).
      rewrite fl_app, E4. rewrite <- fl_app. f_equal. unfold pbst. cbn [app]. rewrite <- app_assoc. reflexivity.
  - unfold psim. cbn [pr_exc pr_env pr_log]. repeat split; try assumption. rewrite E4. unfold pbst. cbn [app].
    destruct x as [e|]; [reflexivity|].
    rewrite !fl_cons, !fl_app, !fl_cons. f_equal. f_equal. f_equal.
    destruct m; [|reflexivity]. cbn [andb] in Am. rewrite fl_single, Am. reflexivity.
Qed.

Theorem ploud_stmt : forall s, ploud_ok s.
Proof.
  induction s using pstmt_ind'; intros Hs; try discriminate Hs; cbn [psrc_t psrc_b] in Hs.
  - apply passemble; [exact Hs|apply pmain_ok_expr; exact Hs|exact Hs].
  - apply passemble; [exact Hs|apply pmain_ok_assign; exact Hs|exact Hs].
  - apply passemble; [reflexivity|apply pmain_ok_pass|reflexivity].
  - pose proof Hs as Hs'. apply andb_true_iff in Hs as [Hs Ho]. apply andb_true_iff in Hs as [Ht Hb].
    apply passemble; [exact Hs'|apply pmain_ok_if; assumption|exact Hs'].
  - pose proof Hs as Hs'. apply andb_true_iff in Hs as [Hs Ho]. apply andb_true_iff in Hs as [Ht Hb].
    apply passemble; [exact Hs'|apply pmain_ok_while; assumption|exact Hs'].
  - pose proof Hs as Hs'. apply andb_true_iff in Hs as [Hs Ho]. apply andb_true_iff in Hs as [Hi Hb].
    apply passemble; [exact Hs'|apply pmain_ok_for; assumption|exact Hs'].
  - apply passemble; [reflexivity|apply pmain_ok_break|reflexivity].
  - apply passemble; [reflexivity|apply pmain_ok_continue|reflexivity].
  - apply passemble; [exact Hs|apply pmain_ok_return; destruct v; [exact Hs|reflexivity]|exact Hs].
  - apply passemble; [exact Hs|apply pmain_ok_def|exact Hs].
Qed.

(* ================================================================ one call, given that the calls it makes agree *)
Definition with_after (f : N) (body : list pstmt) : list pstmt :=
  if sub c E_after_function_execution
  then [PTry (flat_map (pis c ge false) body) [PEmit E_after_function_execution f None (Some (if ge then Some (GFun f) else None))]]
  else flat_map (pis c ge false) body.
Definition instr_body (f : N) (body : list pstmt) : list pstmt :=
  [PNameTry
     (if ge then [PGuardIf (GFun f) (if sub c E_before_function_body then Some f else None) (with_after f body) body]
      else (if sub c E_before_function_body then [PEmit E_before_function_body f (Some (RExp (XConst 0 (SBool true)))) None] else []) ++ with_after f body)
     body].
Definition efb (f : N) : entry := (E_before_function_body, f, Some (cval (SBool true))).
Definition eafe (f : N) : entry := (E_after_function_execution, f, Some VNone).

Lemma pmain_of_def n name ps body : pmain_of (PDef n name ps body) = PDef n name ps (instr_body n body).
Proof. reflexivity. Qed.

Lemma passigned_nametry b p : passigned (PNameTry b p) = flat_map passigned p.
Proof. reflexivity. Qed.
Lemma passigned_instr_body f body : passigned_l (instr_body f body) = passigned_l body.
Proof. unfold passigned_l, instr_body. cbn [flat_map]. rewrite passigned_nametry, app_nil_r. reflexivity. Qed.

Lemma ploud_all u : Forall ploud_ok u.
Proof. apply Forall_forall. intros s _. apply ploud_stmt. Qed.

Lemma with_after_sim f body sc glob r sv q q' : fl q = fl q' -> forallb psrc_b body = true ->
  p_exc (X_l sc glob (with_after f body) r sv q) = pr_exc (R_l false false sc glob body r q') /\
  fl (p_log (X_l sc glob (with_after f body) r sv q)) = fl (pr_log (R_l false false sc glob body r q') ++ [eafe f]).
Proof.
  intros Hq Hb. destruct (ploud_list body (ploud_all body) (psrc_b_t body Hb) false sc glob r sv q q' Hq) as (E1 & E2 & E3).
  unfold with_after. destruct (sub c E_after_function_execution) eqn:Ea.
  - rewrite pexec_l_single, pexec_PTry. cbv zeta. rewrite pexec_l_single. cbn [FragProg.pexec_s p_exc p_env p_saved p_log].
    split; [exact E1|]. rewrite !fl_app, E3. reflexivity.
  - split; [exact E1|]. rewrite fl_app, E3. unfold eafe. rewrite fl_single, Ea, app_nil_r. reflexivity.
Qed.

Lemma body_sim f body sc glob r sv p p' : fl p = fl p' -> forallb psrc_b body = true ->
  let loud := negb ge || pgon p' (GFun f) in
  let lb := if loud then [efb f] else [] in
  let A := X_l sc glob (instr_body f body) r sv p in
  let B := R_l (negb loud) false sc glob body r (p' ++ lb) in
  p_exc A = pr_exc B /\ fl (p_log A) = fl (lb ++ pr_log B ++ (if loud then [eafe f] else [])).
Proof.
  intros Hp Hb. cbv zeta. unfold instr_body. rewrite pexec_l_single, pexec_PNameTry.
  set (IG := [PGuardIf (GFun f) (if sub c E_before_function_body then Some f else None) (with_after f body) body]).
  set (IN := (if sub c E_before_function_body then [PEmit E_before_function_body f (Some (RExp (XConst 0 (SBool true)))) None] else []) ++ with_after f body).
  destruct ge_cases as [G|G].
  - (* global guards: the guard decides *)
    replace (if ge then IG else IN) with IG by (rewrite G; reflexivity). replace (negb ge) with false by (rewrite G; reflexivity). cbn [orb]. subst IG IN.
    rewrite pexec_l_single, pexec_PGuardIf, (pgon_fl p p' _ Hp). cbn [before_event]. destruct (pgon p' (GFun f)) eqn:On; cbn [negb].
    + destruct (sub c E_before_function_body) eqn:Eb.
      * assert (Hq : fl (p ++ [(E_before_function_body, f, Some (cval (SBool true)))]) = fl (p' ++ [efb f])) by (apply fl_pre; [exact Hp|reflexivity]).
        destruct (with_after_sim f body sc glob r sv _ _ Hq Hb) as [W1 W2]. cbv zeta. cbn [p_exc p_log]. split; [exact W1|].
        change ((E_before_function_body, f, Some (cval (SBool true))) :: p_log (X_l sc glob (with_after f body) r sv (p ++ [(E_before_function_body, f, Some (cval (SBool true)))])))
          with ([efb f] ++ p_log (X_l sc glob (with_after f body) r sv (p ++ [(E_before_function_body, f, Some (cval (SBool true)))]))).
        rewrite fl_app, W2, <- fl_app. reflexivity.
      * assert (Hq : fl p = fl (p' ++ [efb f])) by (rewrite fl_app, Hp; unfold efb; rewrite fl_single, Eb, app_nil_r; reflexivity).
        destruct (with_after_sim f body sc glob r sv _ _ Hq Hb) as [W1 W2]. split; [exact W1|].
        rewrite W2, (fl_app [efb f]). unfold efb at 2. rewrite fl_single, Eb. reflexivity.
    + assert (Hq : fl p = fl (p' ++ [])) by (rewrite app_nil_r; exact Hp).
      pose proof (pquiet_list false body (pquiet_all false body) Hb sc glob r sv p _ Hq) as HQ. rewrite ppr_false_map in HQ. destruct HQ as (E1 & E2 & E3).
      split; [exact E1|]. cbn [app]. rewrite app_nil_r. exact E3.
  - (* no global guards: always instrumented *)
    replace (if ge then IG else IN) with IN by (rewrite G; reflexivity). replace (negb ge) with true by (rewrite G; reflexivity). cbn [orb negb]. subst IG IN.
    destruct (sub c E_before_function_body) eqn:Eb.
    + cbn [app]. rewrite pexec_l_cons. unfold pseq. cbn [FragProg.pexec_s FragFun.eval_r FragSem.eval_e rr_of p_exc p_env p_saved p_log app].
      assert (Hq : fl (p ++ [(E_before_function_body, f, Some (cval (SBool true)))]) = fl (p' ++ [efb f])) by (apply fl_pre; [exact Hp|reflexivity]).
      replace (event_eqb E_before_function_body E_after_stmt) with false by reflexivity.
      destruct (with_after_sim f body sc glob r sv _ _ Hq Hb) as [W1 W2]. cbn [p_exc p_log]. split; [exact W1|].
      change (efb f :: pr_log (R_l false false sc glob body r (p' ++ [efb f])) ++ [eafe f])
        with ([efb f] ++ pr_log (R_l false false sc glob body r (p' ++ [efb f])) ++ [eafe f]).
      rewrite (fl_app [efb f]), <- W2. unfold efb. rewrite fl_cons, fl_single. reflexivity.
    + cbn [app]. assert (Hq : fl p = fl (p' ++ [efb f])) by (rewrite fl_app, Hp; unfold efb; rewrite fl_single, Eb, app_nil_r; reflexivity).
      destruct (with_after_sim f body sc glob r sv _ _ Hq Hb) as [W1 W2]. split; [exact W1|].
      rewrite W2. unfold efb. rewrite (fl_cons E_before_function_body), Eb. reflexivity.
Qed.
End WithCalls.

(* ---------------------------------------------------------------- the tables of definitions *)
Definition itab (ftab : N -> option (list N * list pstmt)) : N -> option (list N * list pstmt) :=
  fun f => match ftab f with Some (ps, body) => Some (ps, instr_body f body) | None => None end.
Definition tab_ok (ftab : N -> option (list N * list pstmt)) : Prop := forall f ps body, ftab f = Some (ps, body) -> forallb psrc_b body = true.

Lemma call_step tabi ftab call callr : (forall f, tabi f = itab ftab f) -> tab_ok ftab -> call_sim c call callr ->
  call_sim c (pdo_call binop cmpop unop truth cval is_and c pol fuel tabi call) (pdo_callr binop cmpop unop truth cval is_and c pol fuel ge ftab callr).
Proof.
  intros Hi Ht Hc f vs glob sv p p' Hp. unfold pdo_call, pdo_callr. rewrite Hi. unfold itab.
  destruct (ftab f) as [[ps body]|] eqn:Ef; [|split; reflexivity].
  destruct (Nat.eqb (length ps) (length vs)); [|split; reflexivity].
  rewrite passigned_instr_body.
  destruct (body_sim call callr Hc f body (Some (ps ++ passigned_l body)) glob (bind ps vs (fun _ => None)) sv p p' Hp (Ht f ps body Ef)) as [B1 B2].
  unfold FragFunProofs.rsim. cbn [fst snd]. split.
  - rewrite B1. reflexivity.
  - exact B2.
Qed.

Theorem calls_agree tabi ftab : (forall f, tabi f = itab ftab f) -> tab_ok ftab -> forall d,
  call_sim c (pcall binop cmpop unop truth cval is_and c pol fuel tabi d) (pcallr binop cmpop unop truth cval is_and c pol fuel ge ftab d).
Proof.
  intros Hi Ht. induction d as [|d IH].
  - intros f vs glob sv p p' _. split; reflexivity.
  - cbn [pcall pcallr]. apply call_step; assumption.
Qed.

(* ---------------------------------------------------------------- the definitions of the instrumented module *)
Lemma pdefs_of_app u w n : pdefs_of (u ++ w) n = match pdefs_of u n with Some d => Some d | None => pdefs_of w n end.
Proof. induction u as [|x u IH]; [reflexivity|]. cbn [app pdefs_of]. destruct (pfind_def n x); [reflexivity|exact IH]. Qed.

Lemma pdefs_pis s n : psrc_t s = true ->
  pdefs_of (pis c ge true s) n = match pfind_def n s with Some (ps, body) => Some (ps, instr_body n body) | None => None end.
Proof.
  intros Hs. rewrite pis_unfold. cbv zeta. unfold pown_of, pthunk_branch, pmain_and_after.
  destruct s as [k v|k xs v|k|k t b o|k t b o|k x it b o|k|k|k v|k name ps body| | | | | |]; try discriminate Hs; cbn [p_is_expr andb pid].
  1-8: try (unfold pmain_of, W_main; destruct ge_cases as [E|E]; rewrite E); destruct (sub c E_before_stmt), (pwants true), (sub c E_after_module_stmt); reflexivity.
  - destruct v; destruct (sub c E_before_stmt), (sub c E_after_module_stmt); reflexivity.
  - rewrite pmain_of_def.
    destruct (sub c E_before_stmt), (pwants true), (sub c E_after_module_stmt); cbn [app pdefs_of pfind_def];
      destruct (N.eqb_spec k n) as [->|Hne]; reflexivity.
Qed.

Lemma pdefs_flat m n : forallb psrc_t m = true ->
  pdefs_of (flat_map (pis c ge true) m) n = match pdefs_of m n with Some (ps, body) => Some (ps, instr_body n body) | None => None end.
Proof.
  induction m as [|s m IH]; intros Hs; [reflexivity|].
  cbn [forallb] in Hs. apply andb_true_iff in Hs as [Hs Hm]. cbn [flat_map pdefs_of]. rewrite pdefs_of_app, (pdefs_pis s n Hs), (IH Hm).
  destruct (pfind_def n s) as [[ps body]|]; reflexivity.
Qed.

Lemma pdefs_instr m : forallb psrc_t m = true -> forall n, pdefs_of (pinstr_module0 c ge m) n = itab (pdefs_of m) n.
Proof.
  intros Hs n. unfold pinstr_module0, itab. rewrite !pdefs_of_app, (pdefs_flat m n Hs).
  destruct (sub c E_init_module); cbn [pdefs_of pfind_def]; destruct (pdefs_of m n) as [[ps body]|]; try reflexivity;
    destruct (sub c E_exit_module); reflexivity.
Qed.

Lemma pfind_def_src s n ps body : psrc_t s = true -> pfind_def n s = Some (ps, body) -> forallb psrc_b body = true.
Proof.
  intros Hs H. destruct s; try discriminate H; try discriminate Hs. cbn [pfind_def] in H. destruct (N.eqb n0 n); [|discriminate H]. injection H as <- <-. exact Hs.
Qed.
Lemma pdefs_src m : forallb psrc_t m = true -> tab_ok (pdefs_of m).
Proof.
  induction m as [|s m IH]; intros Hs f ps body H; [discriminate H|].
  cbn [forallb] in Hs. apply andb_true_iff in Hs as [Hs Hm]. cbn [pdefs_of] in H.
  destruct (pfind_def f s) as [d|] eqn:Ef.
  - injection H as ->. exact (pfind_def_src s f ps body Hs Ef).
  - exact (IH Hm f ps body H).
Qed.

(* ================================================================ the module *)
Theorem pmodule_sim0 m : forallb psrc_t m = true -> forall d r sv,
  psim (prun binop cmpop unop truth cval is_and c pol fuel d (pinstr_module0 c ge m) r sv)
       (pref_module0 binop cmpop unop truth cval is_and c pol fuel ge d m r).
Proof.
  intros Hs d r sv. unfold prun, FragProg.pref_module0.
  pose proof (calls_agree (pdefs_of (pinstr_module0 c ge m)) (pdefs_of m) (pdefs_instr m Hs) (pdefs_src m Hs) d) as Hc.
  set (call := pcall binop cmpop unop truth cval is_and c pol fuel (pdefs_of (pinstr_module0 c ge m)) d) in *.
  set (callr := pcallr binop cmpop unop truth cval is_and c pol fuel ge (pdefs_of m) d) in *.
  unfold pinstr_module0.
  set (g0 := fun _ : N => @None val).
  assert (HB : forall r sv p p', fl p = fl p' -> psim (pexec_l call None g0 (flat_map (pis c ge true) m) r sv p) (pref_l callr false true None g0 m r p')).
  { intros. apply (ploud_list call callr); [apply (ploud_all call callr Hc)|exact Hs|assumption]. }
  assert (HX : forall r sv p p', fl p = fl p' ->
            psim (pexec_l call None g0 (flat_map (pis c ge true) m ++ (if sub c E_exit_module then [PEmit E_exit_module 0 None None] else [])) r sv p)
                 {| pr_exc := pr_exc (pref_l callr false true None g0 m r p'); pr_env := pr_env (pref_l callr false true None g0 m r p');
                    pr_log := pr_log (pref_l callr false true None g0 m r p') ++ match pr_exc (pref_l callr false true None g0 m r p') with None => [(E_exit_module, 0, Some VNone)] | Some _ => [] end |}).
  { intros r0 sv0 p p' Hp. destruct (HB r0 sv0 p p' Hp) as (B1 & B2 & B3). rewrite pexec_l_app. unfold pseq. rewrite B1.
    destruct (pr_exc (pref_l callr false true None g0 m r0 p')) as [e|] eqn:Ex.
    - unfold psim. cbn [pr_exc pr_env pr_log]. rewrite app_nil_r. repeat split; assumption.
    - unfold psim. cbn [p_exc p_env p_log pr_exc pr_env pr_log].
      destruct (sub c E_exit_module) eqn:Xm; cbn [FragProg.pexec_l FragProg.pexec_s pseq p_exc p_env p_log app]; repeat split; try assumption;
        rewrite ?fl_app, ?B3, ?fl_single, ?Xm, ?fl_nil, ?app_nil_r; reflexivity. }
  destruct (sub c E_init_module) eqn:Im.
  - cbn [app]. rewrite pexec_l_cons. unfold pseq. cbn [FragProg.pexec_s p_exc p_env p_saved p_log].
    match goal with |- context [pexec_l call None g0 _ r ?s0 ?q] => destruct (HX r s0 q [(E_init_module, 0, Some VNone)] eq_refl) as (X1 & X2 & X3) end.
    unfold psim. cbn [p_exc p_env p_log pr_exc pr_env pr_log] in *. repeat split; try assumption.
    cbn [app] in *. rewrite !fl_cons, X3. reflexivity.
  - cbn [app]. assert (H0 : fl [] = fl [(E_init_module, 0, Some VNone)]) by (rewrite fl_single, Im; reflexivity).
    destruct (HX r sv [] _ H0) as (X1 & X2 & X3). unfold psim. cbn [pr_exc pr_env pr_log] in *. repeat split; try assumption.
    rewrite fl_cons, Im. exact X3.
Qed.

(* the module docstring: as written, first, silent; it defines no function *)
Lemma prest_src m : forallb psrc_t m = true -> forallb psrc_t (prest m) = true.
Proof.
  destruct m as [|d rest]; [reflexivity|]. unfold prest. destruct (p_is_docstring d); [|auto].
  cbn [forallb]. intros H. now apply andb_true_iff in H as [_ H].
Qed.
Lemma pdoc_prest m : pdoc m ++ prest m = m.
Proof. destruct m as [|d rest]; [reflexivity|]. unfold pdoc, prest. now destruct (p_is_docstring d). Qed.
Lemma prun_doc cc pp dd u d r sv : p_is_docstring dd = true ->
  p_exc (prun binop cmpop unop truth cval is_and cc pp fuel d (dd :: u) r sv) = p_exc (prun binop cmpop unop truth cval is_and cc pp fuel d u r sv) /\
  p_env (prun binop cmpop unop truth cval is_and cc pp fuel d (dd :: u) r sv) = p_env (prun binop cmpop unop truth cval is_and cc pp fuel d u r sv) /\
  p_log (prun binop cmpop unop truth cval is_and cc pp fuel d (dd :: u) r sv) = p_log (prun binop cmpop unop truth cval is_and cc pp fuel d u r sv).
Proof.
  destruct dd; try discriminate. destruct r0 as [v| | |]; try discriminate.
  destruct v as [|m sc| | | | | | | | | | |]; try discriminate. destruct sc; try discriminate. intros _.
  unfold prun. change (pdefs_of (PExpr n (RExp (XConst m (SStr s))) :: u)) with (fun k => pdefs_of u k).
  cbn [FragProg.pexec_l]. unfold pseq. cbn [FragProg.pexec_s FragFun.eval_r FragSem.eval_e pexc_of p_exc p_env p_saved p_log app].
  repeat split; reflexivity.
Qed.
Theorem pmodule_sim m : forallb psrc_t m = true -> forall d r sv,
  psim (prun binop cmpop unop truth cval is_and c pol fuel d (pinstr_module c ge m) r sv)
       (pref_module binop cmpop unop truth cval is_and c pol fuel ge d m r).
Proof.
  intros Hs d r sv. unfold pinstr_module, FragProg.pref_module.
  pose proof (pmodule_sim0 (prest m) (prest_src m Hs) d r sv) as M.
  destruct m as [|dd rest]; [exact M|]. unfold pdoc, prest in *. destruct (p_is_docstring dd) eqn:Ed; [|exact M].
  cbn [app]. destruct (prun_doc c pol dd (pinstr_module0 c ge rest) d r sv Ed) as (E1 & E2 & E3).
  destruct M as (M1 & M2 & M3). unfold psim. rewrite E1, E2, E3. repeat split; assumption.
Qed.


(* ================================================================ the source program as it is (no rewriting at all) computes the reference results *)
Section Plain.
Variable call : callT.
Variable callr : callR.
Hypothesis call_ok : call_res call callr.
Variable c0 : rcfg.                                (* whatever the run of the untouched source is given: it tests no guard *)
Variable pol0 : list entry -> guard -> bool.
Notation X_s := (FragProg.pexec_s binop cmpop unop truth cval is_and c0 pol0 fuel call).
Notation X_l := (FragProg.pexec_l binop cmpop unop truth cval is_and c0 pol0 fuel call).
Notation R_s := (pref_s callr).
Notation R_l := (pref_l callr).
Definition Rplain := rhs_plain binop cmpop unop truth cval is_and call callr call_ok.

Lemma pexec_l_cons0 sc glob x u r sv pre : X_l sc glob (x :: u) r sv pre = pseq (X_s sc glob x r sv pre) (X_l sc glob u) pre.
Proof. reflexivity. Qed.
Lemma pexec_PIf0 sc glob n t b o r sv pre :
  X_s sc glob (PIf n t b o) r sv pre =
  let '(q, l) := eval_e t (look sc glob r) in
  match q with
  | Ok vt => let a := X_l sc glob (if truth vt then b else o) r sv (pre ++ l) in
             {| p_exc := p_exc a; p_env := p_env a; p_saved := p_saved a; p_log := l ++ p_log a |}
  | Err e => {| p_exc := Some (PO (FX e)); p_env := r; p_saved := sv; p_log := l |}
  end.
Proof. reflexivity. Qed.
Definition ploop0 (sc : scope) (glob : env) (t : texpr) (b o : list pstmt) :=
  fix loop (f : nat) (r : env) (saved : val) (pre : list entry) {struct f} : pres :=
    match f with
    | O => {| p_exc := Some (PO FFuel); p_env := r; p_saved := saved; p_log := [] |}
    | S f' =>
        let '(q, lt) := eval_e t (look sc glob r) in
        match q with
        | Err e => {| p_exc := Some (PO (FX e)); p_env := r; p_saved := saved; p_log := lt |}
        | Ok vt =>
            if truth vt then
              let a := X_l sc glob b r saved (pre ++ lt) in
              match p_exc a with
              | Some PBrk => {| p_exc := None; p_env := p_env a; p_saved := p_saved a; p_log := lt ++ p_log a |}
              | None | Some PCnt =>
                  let z := loop f' (p_env a) (p_saved a) (pre ++ lt ++ p_log a) in
                  {| p_exc := p_exc z; p_env := p_env z; p_saved := p_saved z; p_log := lt ++ p_log a ++ p_log z |}
              | Some _ => {| p_exc := p_exc a; p_env := p_env a; p_saved := p_saved a; p_log := lt ++ p_log a |}
              end
            else let a := X_l sc glob o r saved (pre ++ lt) in
                 {| p_exc := p_exc a; p_env := p_env a; p_saved := p_saved a; p_log := lt ++ p_log a |}
        end
    end.
Lemma pexec_PWhile0 sc glob n t b o r sv pre : X_s sc glob (PWhile n t b o) r sv pre = ploop0 sc glob t b o fuel r sv pre.
Proof. reflexivity. Qed.

Definition pfloop0 (sc : scope) (glob : env) (x : N) (b o : list pstmt) :=
  fix floop (k : nat) (i : Z) (r : env) (saved : val) (pre : list entry) {struct k} : pres :=
    match k with
    | O => X_l sc glob o r saved pre
    | S k' =>
        let a := X_l sc glob b (upd r x (VInt i)) saved pre in
        match p_exc a with
        | Some PBrk => {| p_exc := None; p_env := p_env a; p_saved := p_saved a; p_log := p_log a |}
        | None | Some PCnt =>
            let z := floop k' (i + 1)%Z (p_env a) (p_saved a) (pre ++ p_log a) in
            {| p_exc := p_exc z; p_env := p_env z; p_saved := p_saved z; p_log := p_log a ++ p_log z |}
        | Some _ => a
        end
    end.
Lemma pexec_PFor0 sc glob n x it b o r sv pre :
  X_s sc glob (PFor n x it b o) r sv pre =
  let '(q, sv', l) := eval_r call (look sc glob r) (globs sc glob r) it sv pre in
  match q with
  | ROk (VRange lo hi) => let z := pfloop0 sc glob x b o (Z.to_nat (hi - lo)) lo r sv' (pre ++ l) in
                          {| p_exc := p_exc z; p_env := p_env z; p_saved := p_saved z; p_log := l ++ p_log z |}
  | ROk _ => {| p_exc := Some (PO (FX ETypeError)); p_env := r; p_saved := sv'; p_log := l |}
  | RErr e => {| p_exc := Some (PO e); p_env := r; p_saved := sv'; p_log := l |}
  end.
Proof. reflexivity. Qed.

Definition pres_eq (a : pres) (b : prres) : Prop := p_exc a = pr_exc b /\ p_env a = pr_env b.
Definition pplain_ok (s : pstmt) : Prop := psrc_t s = true -> forall q m sc glob r sv p p', pres_eq (X_s sc glob s r sv p) (R_s q m sc glob s r p').

Lemma pplain_list u : Forall pplain_ok u -> forallb psrc_t u = true -> forall q m sc glob r sv p p',
  pres_eq (X_l sc glob u r sv p) (R_l q m sc glob u r p').
Proof.
  induction 1 as [|x u Hx _ IH]; intros Hs q m sc glob r sv p p'.
  - split; reflexivity.
  - cbn [forallb] in Hs. apply andb_true_iff in Hs as [Hsx Hs]. rewrite pexec_l_cons0, pref_l_cons.
    destruct (Hx Hsx q m sc glob r sv p p') as (E1 & E2). unfold pseq, prseq. rewrite E1.
    destruct (pr_exc (R_s q m sc glob x r p')) eqn:Ex.
    + unfold pres_eq. rewrite Ex. split; assumption.
    + rewrite E2. destruct (IH Hs q m sc glob (pr_env (R_s q m sc glob x r p')) (p_saved (X_s sc glob x r sv p))
                  (p ++ p_log (X_s sc glob x r sv p)) (p' ++ pr_log (R_s q m sc glob x r p'))) as (F1 & F2).
      split; assumption.
Qed.

Lemma pplain_loop q sc glob n t b o : src_e t = true -> Forall pplain_ok b -> Forall pplain_ok o ->
  forallb psrc_b b = true -> forallb psrc_b o = true ->
  forall f r sv p p', pres_eq (ploop0 sc glob t b o f r sv p) (prloop callr q sc glob n t b o f r p').
Proof.
  intros Ht Fb Fo Hb Ho. induction f as [|f IH]; intros r sv p p'.
  - split; reflexivity.
  - cbn [ploop0 prloop]. rewrite (eval_src t _ Ht). destruct (ref_e t (look sc glob r)) as [[vt|e] l]; cbn [fst snd]; [|split; reflexivity].
    destruct (truth vt).
    + match goal with |- context [R_l ?Q false sc glob b r ?P] =>
        destruct (pplain_list b Fb (psrc_b_t b Hb) Q false sc glob r sv (p ++ []) P) as (A1 & A2);
        set (A := X_l sc glob b r sv (p ++ [])) in *; set (B := R_l Q false sc glob b r P) in * end.
      rewrite A1.
      destruct (pr_exc B) as [[x| |]|] eqn:Ex; try (split; cbn [p_exc p_env pr_exc pr_env]; [reflexivity|exact A2]);
        (match goal with |- context [prloop callr q sc glob n t b o f (pr_env B) ?P] => destruct (IH (p_env A) (p_saved A) (p ++ [] ++ p_log A) P) as (J1 & J2) end;
         rewrite A2 in J1, J2; split; cbn [p_exc p_env pr_exc pr_env]; rewrite ?A2; assumption).
    + match goal with |- context [R_l ?Q false sc glob o r ?P] => destruct (pplain_list o Fo (psrc_b_t o Ho) Q false sc glob r sv (p ++ []) P) as (A1 & A2) end.
      split; cbn [p_exc p_env pr_exc pr_env]; assumption.
Qed.

Lemma pplain_floop q sc glob n x b o : Forall pplain_ok b -> Forall pplain_ok o ->
  forallb psrc_b b = true -> forallb psrc_b o = true ->
  forall k i r sv p p', pres_eq (pfloop0 sc glob x b o k i r sv p) (prfloop callr q sc glob n x b o k i r p').
Proof.
  intros Fb Fo Hb Ho. induction k as [|k IH]; intros i r sv p p'.
  - cbn [pfloop0 prfloop]. apply (pplain_list o Fo (psrc_b_t o Ho)).
  - cbn [pfloop0 prfloop].
    match goal with |- context [R_l ?Q false sc glob b ?R ?P] =>
      destruct (pplain_list b Fb (psrc_b_t b Hb) Q false sc glob R sv p P) as (A1 & A2);
      set (A := X_l sc glob b R sv p) in *; set (B := R_l Q false sc glob b R P) in * end.
    rewrite A1.
    destruct (pr_exc B) as [[e| |]|] eqn:Ex; try (split; cbn [p_exc p_env pr_exc pr_env]; [first [exact A1|reflexivity]|exact A2]);
      (match goal with |- context [prfloop callr q sc glob n x b o k (i + 1)%Z (pr_env B) ?P] => destruct (IH (i + 1)%Z (p_env A) (p_saved A) (p ++ p_log A) P) as (J1 & J2) end;
       rewrite A2 in J1, J2; split; cbn [p_exc p_env pr_exc pr_env]; rewrite ?A2; assumption).
Qed.

Theorem pplain_stmt : forall s, pplain_ok s.
Proof.
  induction s using pstmt_ind'; intros Hs q m sc glob r sv pa pb; try discriminate Hs; cbn [psrc_t psrc_b] in Hs; rewrite pref_unfold; cbn [pid pbody_of].
  - pose proof (Rplain v Hs q (look sc glob r) (globs sc glob r) sv pa (pb ++ fsay q [(E_before_stmt, n, Some VNone)])) as A1. cbn [FragProg.pexec_s].
    destruct (eval_r call _ _ v sv pa) as [[x sv'] l]. destruct (ref_r callr q _ _ v _) as [x' l']. cbn [fst snd] in A1. subst x'. split; reflexivity.
  - pose proof (Rplain v Hs q (look sc glob r) (globs sc glob r) sv pa
                  ((pb ++ fsay q [(E_before_stmt, n, Some VNone)]) ++ fsay q [(E_before_assign_rhs, rid v, None)])) as A1. cbn [FragProg.pexec_s].
    destruct (eval_r call _ _ v sv pa) as [[x sv'] l]. destruct (ref_r callr q _ _ v _) as [x' l']. cbn [fst snd] in A1. subst x'.
    destruct x; split; reflexivity.
  - split; reflexivity.
  - apply andb_true_iff in Hs as [Hs Ho]. apply andb_true_iff in Hs as [Ht Hb].
    rewrite pexec_PIf0, (eval_src t _ Ht). destruct (ref_e t (look sc glob r)) as [[vt|e] l]; cbn [fst snd]; [|split; reflexivity].
    assert (HB : forall p p', pres_eq (X_l sc glob (if truth vt then b else o) r sv p) (R_l q false sc glob (if truth vt then b else o) r p')).
    { intros p p'. destruct (truth vt); [apply (pplain_list b H (psrc_b_t b Hb))|apply (pplain_list o H0 (psrc_b_t o Ho))]. }
    match goal with |- context [R_l q false sc glob _ r ?P] => destruct (HB (pa ++ []) P) as (B1 & B2) end.
    split; cbn [p_exc p_env pr_exc pr_env]; assumption.
  - apply andb_true_iff in Hs as [Hs Ho]. apply andb_true_iff in Hs as [Ht Hb].
    rewrite pexec_PWhile0.
    match goal with |- context [prloop callr q sc glob n t b o fuel r ?P] => destruct (pplain_loop q sc glob n t b o Ht H H0 Hb Ho fuel r sv pa P) as (B1 & B2) end.
    split; cbn [p_exc p_env pr_exc pr_env]; assumption.
  - (* for *)
    apply andb_true_iff in Hs as [Hs Ho]. apply andb_true_iff in Hs as [Hi Hb].
    rewrite pexec_PFor0.
    pose proof (Rplain it Hi q (look sc glob r) (globs sc glob r) sv pa
                  ((pb ++ fsay q [(E_before_stmt, n, Some VNone)]) ++ fsay q [(E_before_for_iter, rid it, None)])) as A1.
    destruct (eval_r call _ _ it sv pa) as [[v sv'] l]. destruct (ref_r callr q _ _ it _) as [v' l']. cbn [fst snd] in A1. subst v'.
    destruct v as [v|e]; [|split; reflexivity]. destruct v; try (split; reflexivity).
    match goal with |- context [prfloop callr q sc glob n x b o ?K ?I r ?P] => destruct (pplain_floop q sc glob n x b o H H0 Hb Ho K I r sv' (pa ++ l) P) as (B1 & B2) end.
    split; cbn [p_exc p_env pr_exc pr_env]; assumption.
  - split; reflexivity.
  - split; reflexivity.
  - destruct v as [v|]; [|split; reflexivity].
    pose proof (Rplain v Hs q (look sc glob r) (globs sc glob r) sv pa
                  ((pb ++ fsay q [(E_before_stmt, n, Some VNone)]) ++ fsay q [(E_before_return, rid v, None)])) as A1. cbn [FragProg.pexec_s].
    destruct (eval_r call _ _ v sv pa) as [[x sv'] l]. destruct (ref_r callr q _ _ v _) as [x' l']. cbn [fst snd] in A1. subst x'. split; reflexivity.
  - split; reflexivity.
Qed.
End Plain.

Variable c0 : rcfg.
Variable pol0 : list entry -> guard -> bool.
Lemma pplain_all call callr : call_res call callr -> forall u, Forall (pplain_ok call callr c0 pol0) u.
Proof. intros Hc u. apply Forall_forall. intros s _. apply pplain_stmt. exact Hc. Qed.

Lemma plain_step ftab call callr : tab_ok ftab -> call_res call callr ->
  call_res (pdo_call binop cmpop unop truth cval is_and c0 pol0 fuel ftab call) (pdo_callr binop cmpop unop truth cval is_and c pol fuel ge ftab callr).
Proof.
  intros Ht Hc f vs glob sv p p'. unfold pdo_call, pdo_callr.
  destruct (ftab f) as [[ps body]|] eqn:Ef; [|reflexivity].
  destruct (Nat.eqb (length ps) (length vs)); [|reflexivity]. cbn [fst snd].
  match goal with |- context [pref_l callr ?Q false ?SC glob body ?R ?P] =>
    destruct (pplain_list call callr c0 pol0 body (pplain_all call callr Hc body) (psrc_b_t body (Ht f ps body Ef)) Q false SC glob R sv p P) as [B1 B2] end.
  rewrite B1. reflexivity.
Qed.

Theorem plain_calls ftab : tab_ok ftab -> forall d,
  call_res (pcall binop cmpop unop truth cval is_and c0 pol0 fuel ftab d) (pcallr binop cmpop unop truth cval is_and c pol fuel ge ftab d).
Proof.
  intros Ht. induction d as [|d IH].
  - intros f vs glob sv p p'. reflexivity.
  - cbn [pcall pcallr]. apply plain_step; assumption.
Qed.

Theorem pplain_module0 m : forallb psrc_t m = true -> forall d r sv,
  pres_eq (prun binop cmpop unop truth cval is_and c0 pol0 fuel d m r sv) (pref_module0 binop cmpop unop truth cval is_and c pol fuel ge d m r).
Proof.
  intros Hs d r sv. unfold prun, FragProg.pref_module0.
  pose proof (plain_calls (pdefs_of m) (pdefs_src m Hs) d) as Hc.
  match goal with |- context [pref_l ?CR false true None ?G m r ?P] =>
    destruct (pplain_list _ CR c0 pol0 m (pplain_all _ CR Hc m) Hs false true None G r sv [] P) as [B1 B2] end.
  split; cbn [pr_exc pr_env]; assumption.
Qed.
Theorem pplain_module m : forallb psrc_t m = true -> forall d r sv,
  pres_eq (prun binop cmpop unop truth cval is_and c0 pol0 fuel d m r sv) (pref_module binop cmpop unop truth cval is_and c pol fuel ge d m r).
Proof.
  intros Hs d r sv. unfold FragProg.pref_module.
  pose proof (pplain_module0 (prest m) (prest_src m Hs) d r sv) as M.
  destruct m as [|dd rest]; [exact M|]. unfold prest in *. destruct (p_is_docstring dd) eqn:Ed; [|exact M].
  destruct (prun_doc c0 pol0 dd rest d r sv Ed) as (E1 & E2 & _). destruct M as (M1 & M2). unfold pres_eq. rewrite E1, E2. split; assumption.
Qed.

(* ================================================================ scoping: the instrumented copy of a body assigns no name the pristine copy does not assign
   (so reading a function's local names off the pristine copy kept in the `except NameError` handler, as model/FragFun.v and model/FragProg.v do, gives
   the set Python's compiler computes for the whole rewritten definition) *)
Lemma passigned_PIf n t b o : passigned (PIf n t b o) = flat_map passigned b ++ flat_map passigned o.
Proof. reflexivity. Qed.
Lemma passigned_PBefore n tb own : passigned (PBefore n tb own) = flat_map passigned tb ++ flat_map passigned own.
Proof. reflexivity. Qed.

Lemma passigned_PWhile n t b o : passigned (PWhile n t b o) = flat_map passigned b ++ flat_map passigned o.
Proof. reflexivity. Qed.
Lemma passigned_PFor n x it b o : passigned (PFor n x it b o) = x :: flat_map passigned b ++ flat_map passigned o.
Proof. reflexivity. Qed.
Lemma passigned_ppr_list g' (u : list pstmt) : Forall (fun s => passigned (ppr g' s) = passigned s) u -> flat_map passigned (map (ppr g') u) = flat_map passigned u.
Proof. induction 1 as [|x u Hx _ IH]; [reflexivity|]. cbn [map flat_map]. rewrite Hx, IH. reflexivity. Qed.
Lemma passigned_ppr g' : forall s, passigned (ppr g' s) = passigned s.
Proof.
  induction s using pstmt_ind'; cbn [ppr]; try reflexivity.
  - rewrite !passigned_PIf, (passigned_ppr_list g' b H), (passigned_ppr_list g' o H0). reflexivity.
  - destruct g'; [change (passigned (PWhileG n (GTest n) t t (map (ppr true) b) (map (ppr true) o)))
                    with (flat_map passigned (map (ppr true) b) ++ flat_map passigned (map (ppr true) o))|];
      rewrite ?passigned_PWhile, (passigned_ppr_list _ b H), (passigned_ppr_list _ o H0); reflexivity.
  - rewrite !passigned_PFor, (passigned_ppr_list g' b H), (passigned_ppr_list g' o H0). reflexivity.
Qed.
Lemma passigned_ppr_map g' u : flat_map passigned (map (ppr g') u) = flat_map passigned u.
Proof. apply passigned_ppr_list. apply Forall_forall. intros s _. apply passigned_ppr. Qed.

Definition asg_ok (s : pstmt) : Prop := psrc_t s = true -> forall m x, In x (flat_map passigned (pis c ge m s)) -> In x (passigned s).

Lemma asg_list u : Forall asg_ok u -> forallb psrc_t u = true -> forall m x, In x (flat_map passigned (flat_map (pis c ge m) u)) -> In x (flat_map passigned u).
Proof.
  induction 1 as [|s u Hs _ IH]; intros Hu m x Hin; [exact Hin|].
  cbn [forallb] in Hu. apply andb_true_iff in Hu as [H1 H2]. cbn [flat_map] in Hin |- *. rewrite flat_map_app in Hin.
  apply in_app_or in Hin as [Hin|Hin]; apply in_or_app; [left; exact (Hs H1 m x Hin)|right; exact (IH H2 m x Hin)].
Qed.

Lemma asg_assemble s : (forall x, In x (passigned (pmain_of s)) -> In x (passigned s)) -> forall m x, In x (flat_map passigned (pis c ge m s)) -> In x (passigned s).
Proof.
  intros HM m x. rewrite pis_unfold. cbv zeta.
  assert (HO : In x (flat_map passigned (pown_of m s)) -> In x (passigned s)).
  { unfold pown_of, pmain_and_after. destruct s; destruct (pwants m); try destruct (p_is_expr _ && m); cbn [flat_map passigned app]; rewrite ?app_nil_r;
      try (intros HF; exact (False_ind _ HF)); try apply HM. }
  assert (HE : In x (flat_map passigned (if sub c E_before_stmt then [PBefore (pid s) (pthunk_branch m s) (pown_of m s)] else pown_of m s)) -> In x (passigned s)).
  { destruct (sub c E_before_stmt); [|exact HO]. cbn [flat_map]. rewrite passigned_PBefore, app_nil_r. intros H. apply in_app_or in H as [H|H]; [|exact (HO H)].
    unfold pthunk_branch, pmain_and_after in H. destruct (pwants m); cbn in H; destruct m; cbn in H; destruct H. }
  destruct (m && sub c E_after_module_stmt); [|exact HE]. rewrite flat_map_app. intros H. apply in_app_or in H as [H|H]; [exact (HE H)|destruct H].
Qed.

Theorem passigned_pis : forall s, asg_ok s.
Proof.
  induction s using pstmt_ind'; intros Hs; try discriminate Hs; cbn [psrc_t psrc_b] in Hs; apply asg_assemble; cbn [pmain_of]; try (intros x Hx; exact Hx).
  - apply andb_true_iff in Hs as [Hs Ho]. apply andb_true_iff in Hs as [Ht Hb]. intros x. rewrite !passigned_PIf. intros Hx.
    apply in_app_or in Hx as [Hx|Hx]; apply in_or_app; [left; exact (asg_list b H (psrc_b_t b Hb) false x Hx)|right; exact (asg_list o H0 (psrc_b_t o Ho) false x Hx)].
  - (* while: the instrumented body and the pristine copy kept next to it *)
    apply andb_true_iff in Hs as [Hs Ho]. apply andb_true_iff in Hs as [Ht Hb]. intros x. rewrite passigned_PWhile.
    assert (HA : In x (flat_map passigned (W_after n b)) -> In x (flat_map passigned b)).
    { unfold W_after, W_b'. destruct (sub c E_after_while_loop_iter).
      - cbn [flat_map]. rewrite app_nil_r.
        change (passigned (PTry (flat_map (pis c ge false) b) [PEmit E_after_while_loop_iter n None (Some (if ge then Some (GBody n) else None))]))
          with (flat_map passigned (flat_map (pis c ge false) b) ++ flat_map passigned [PEmit E_after_while_loop_iter n None (Some (if ge then Some (GBody n) else None))]).
        cbn [flat_map passigned app]. rewrite app_nil_r. exact (asg_list b H (psrc_b_t b Hb) false x).
      - exact (asg_list b H (psrc_b_t b Hb) false x). }
    assert (HB : In x (flat_map passigned (W_body n b)) -> In x (flat_map passigned b)).
    { unfold W_body.
      set (IG := [PGuardIf (GBody n) (if sub c E_before_while_loop_body then Some n else None) (W_after n b) (map (ppr ge) b)]).
      set (IN := (if sub c E_before_while_loop_body then [PEmit E_before_while_loop_body n (Some (RExp (XConst 0 (SBool true)))) None] else []) ++ W_after n b).
      destruct ge_cases as [E|E].
      - replace (if ge then IG else IN) with IG by (rewrite E; reflexivity). subst IG IN. cbn [flat_map]. rewrite app_nil_r.
        change (passigned (PGuardIf (GBody n) (if sub c E_before_while_loop_body then Some n else None) (W_after n b) (map (ppr ge) b)))
          with (flat_map passigned (W_after n b) ++ flat_map passigned (map (ppr ge) b)).
        rewrite passigned_ppr_map. intros Hx. apply in_app_or in Hx as [Hx|Hx]; [exact (HA Hx)|exact Hx].
      - replace (if ge then IG else IN) with IN by (rewrite E; reflexivity). subst IG IN. rewrite flat_map_app. intros Hx. apply in_app_or in Hx as [Hx|Hx]; [|exact (HA Hx)].
        destruct (sub c E_before_while_loop_body); destruct Hx. }
    unfold W_main. intros Hx.
    assert (Hx' : In x (flat_map passigned (W_body n b) ++ flat_map passigned (W_o' o))) by (destruct ge; exact Hx).
    apply in_app_or in Hx' as [Hx'|Hx']; apply in_or_app; [left; exact (HB Hx')|right; exact (asg_list o H0 (psrc_b_t o Ho) false x Hx')].
  - (* for: as for while, plus the target *)
    apply andb_true_iff in Hs as [Hs Ho]. apply andb_true_iff in Hs as [Hi Hb]. intros y. rewrite !passigned_PFor.
    assert (HA : In y (flat_map passigned (F_after n b)) -> In y (flat_map passigned b)).
    { unfold F_after, F_b'. destruct (sub c E_after_for_loop_iter).
      - cbn [flat_map]. rewrite app_nil_r.
        change (passigned (PTry (flat_map (pis c ge false) b) [PEmit E_after_for_loop_iter n None (Some (if ge then Some (GFBody n) else None))]))
          with (flat_map passigned (flat_map (pis c ge false) b) ++ flat_map passigned [PEmit E_after_for_loop_iter n None (Some (if ge then Some (GFBody n) else None))]).
        cbn [flat_map passigned app]. rewrite app_nil_r. exact (asg_list b H (psrc_b_t b Hb) false y).
      - exact (asg_list b H (psrc_b_t b Hb) false y). }
    assert (HB : In y (flat_map passigned (F_body n b)) -> In y (flat_map passigned b)).
    { unfold F_body.
      set (IG := [PGuardIf (GFBody n) (if sub c E_before_for_loop_body then Some n else None) (F_after n b) (map (ppr ge) b)]).
      set (IN := (if sub c E_before_for_loop_body then [PEmit E_before_for_loop_body n (Some (RExp (XConst 0 (SBool true)))) None] else []) ++ F_after n b).
      destruct ge_cases as [E|E].
      - replace (if ge then IG else IN) with IG by (rewrite E; reflexivity). subst IG IN. cbn [flat_map]. rewrite app_nil_r.
        change (passigned (PGuardIf (GFBody n) (if sub c E_before_for_loop_body then Some n else None) (F_after n b) (map (ppr ge) b)))
          with (flat_map passigned (F_after n b) ++ flat_map passigned (map (ppr ge) b)).
        rewrite passigned_ppr_map. intros Hx. apply in_app_or in Hx as [Hx|Hx]; [exact (HA Hx)|exact Hx].
      - replace (if ge then IG else IN) with IN by (rewrite E; reflexivity). subst IG IN. rewrite flat_map_app. intros Hx. apply in_app_or in Hx as [Hx|Hx]; [|exact (HA Hx)].
        destruct (sub c E_before_for_loop_body); destruct Hx. }
    intros [Hx|Hx]; [left; exact Hx|right].
    apply in_app_or in Hx as [Hx|Hx]; apply in_or_app; [left; exact (HB Hx)|right; exact (asg_list o H0 (psrc_b_t o Ho) false y Hx)].
  - destruct v; intros x Hx; exact Hx.
Qed.

Corollary passigned_instr_sub body : forallb psrc_b body = true -> forall x, In x (passigned_l (flat_map (pis c ge false) body)) -> In x (passigned_l body).
Proof.
  intros Hb x. apply asg_list; [|exact (psrc_b_t body Hb)]. apply Forall_forall. intros s _. apply passigned_pis.
Qed.
End ProgProofs.

(* ================================================================ when no handler touches a guard (the guards stay as they are: a constant policy), the
   reference does not depend on what is subscribed *)
Lemma ref_r_ext binop cmpop unop truth cval is_and (callr1 callr2 : callR) :
  (forall f vs glob pre, callr1 f vs glob pre = callr2 f vs glob pre) ->
  forall q lk glob r pre, ref_r binop cmpop unop truth cval is_and callr1 q lk glob r pre = ref_r binop cmpop unop truth cval is_and callr2 q lk glob r pre.
Proof.
  intros H q lk glob r pre. destruct r as [v|cn bc ba aa func args| |]; try reflexivity.
  cbn [FragFun.ref_r]. destruct (FragSem.ref_e binop cmpop unop truth cval is_and func lk) as [[vf|e] lf]; [|reflexivity].
  destruct (FragFun.ref_args binop cmpop unop truth cval is_and q args lk) as [[vs|e] la]; [|reflexivity].
  destruct vf; try reflexivity. rewrite H. reflexivity.
Qed.

Section RefIndep.
Variable binop : N -> val -> val -> res val.
Variable cmpop : N -> val -> val -> res bool.
Variable unop : N -> val -> res val.
Variable truth : val -> bool.
Variable cval : scalar -> val.
Variable is_and : N -> bool.
Variables (c1 c2 : rcfg) (G : guard -> bool) (fuel : nat) (ge : bool).
Notation P := (fun (_ : list entry) (g : guard) => G g).
Notation S1 := (FragProg.pref_s binop cmpop unop truth cval is_and c1 P fuel ge).
Notation S2 := (FragProg.pref_s binop cmpop unop truth cval is_and c2 P fuel ge).
Notation L1 := (FragProg.pref_l binop cmpop unop truth cval is_and c1 P fuel ge).
Notation L2 := (FragProg.pref_l binop cmpop unop truth cval is_and c2 P fuel ge).
Notation B1 := (pbody_of binop cmpop unop truth cval is_and c1 P fuel ge).
Notation B2 := (pbody_of binop cmpop unop truth cval is_and c2 P fuel ge).
Notation W1 := (prloop binop cmpop unop truth cval is_and c1 P fuel ge).
Notation W2 := (prloop binop cmpop unop truth cval is_and c2 P fuel ge).
Notation F1 := (prfloop binop cmpop unop truth cval is_and c1 P fuel ge).
Notation F2 := (prfloop binop cmpop unop truth cval is_and c2 P fuel ge).

Section W.
Variables callr1 callr2 : callR.
Hypothesis Hc : forall f vs glob pre, callr1 f vs glob pre = callr2 f vs glob pre.

Definition indep_ok (s : pstmt) : Prop := forall q m sc glob r pre, S1 callr1 q m sc glob s r pre = S2 callr2 q m sc glob s r pre.

Lemma indep_list u : Forall indep_ok u -> forall q m sc glob r pre, L1 callr1 q m sc glob u r pre = L2 callr2 q m sc glob u r pre.
Proof.
  induction 1 as [|x u Hx _ IH]; intros q m sc glob r pre; [reflexivity|].
  rewrite (pref_l_cons binop cmpop unop truth cval is_and c1), (pref_l_cons binop cmpop unop truth cval is_and c2), Hx.
  unfold prseq. destruct (pr_exc (S2 callr2 q m sc glob x r pre)); [reflexivity|]. rewrite IH. reflexivity.
Qed.

Lemma indep_loop n t b o : Forall indep_ok b -> Forall indep_ok o -> forall q sc glob f r pre,
  W1 callr1 q sc glob n t b o f r pre = W2 callr2 q sc glob n t b o f r pre.
Proof.
  intros Fb Fo q sc glob. induction f as [|f IH]; intros r pre; [reflexivity|].
  cbn [prloop]. unfold FragProg.pgon.
  destruct (FragSem.ref_e binop cmpop unop truth cval is_and t (look sc glob r)) as [[vt|e] l]; [|reflexivity].
  destruct (truth vt).
  - rewrite (indep_list b Fb). destruct (pr_exc (L2 callr2 _ false sc glob b r _)) as [[x| |]|]; rewrite ?IH; reflexivity.
  - rewrite (indep_list o Fo). reflexivity.
Qed.

Lemma indep_floop n x b o : Forall indep_ok b -> Forall indep_ok o -> forall q sc glob k i r pre,
  F1 callr1 q sc glob n x b o k i r pre = F2 callr2 q sc glob n x b o k i r pre.
Proof.
  intros Fb Fo q sc glob. induction k as [|k IH]; intros i r pre.
  - cbn [prfloop]. apply (indep_list o Fo).
  - cbn [prfloop]. unfold FragProg.pgon. rewrite (indep_list b Fb).
    destruct (pr_exc (L2 callr2 _ false sc glob b _ _)) as [[x0| |]|]; rewrite ?IH; reflexivity.
Qed.

Theorem indep_stmt : forall s, indep_ok s.
Proof.
  induction s using pstmt_ind'; intros q m sc glob r pre;
    rewrite (pref_unfold binop cmpop unop truth cval is_and c1), (pref_unfold binop cmpop unop truth cval is_and c2); cbn [pbody_of];
    rewrite ?(ref_r_ext binop cmpop unop truth cval is_and callr1 callr2 Hc); try reflexivity.
  - (* if *)
    destruct (FragSem.ref_e binop cmpop unop truth cval is_and t (look sc glob r)) as [[vt|e] l]; [|reflexivity].
    destruct (truth vt); [rewrite (indep_list b H)|rewrite (indep_list o H0)]; reflexivity.
  - (* while *)
    rewrite (indep_loop n t b o H H0). reflexivity.
  - (* for *)
    destruct (ref_r binop cmpop unop truth cval is_and callr2 q _ _ it _) as [[v|e] l]; [|reflexivity].
    destruct v; try reflexivity. rewrite (indep_floop n x b o H H0). reflexivity.
  - (* return *)
    destruct v as [v|]; [|reflexivity]. rewrite (ref_r_ext binop cmpop unop truth cval is_and callr1 callr2 Hc). reflexivity.
Qed.
End W.

Lemma indep_step ptab callr1 callr2 : (forall f vs glob pre, callr1 f vs glob pre = callr2 f vs glob pre) ->
  forall f vs glob pre, pdo_callr binop cmpop unop truth cval is_and c1 P fuel ge ptab callr1 f vs glob pre =
                        pdo_callr binop cmpop unop truth cval is_and c2 P fuel ge ptab callr2 f vs glob pre.
Proof.
  intros Hc f vs glob pre. unfold pdo_callr, FragProg.pgon. destruct (ptab f) as [[ps body]|]; [|reflexivity].
  destruct (Nat.eqb (length ps) (length vs)); [|reflexivity].
  rewrite (indep_list callr1 callr2 body (proj2 (Forall_forall _ _) (fun s _ => indep_stmt callr1 callr2 Hc s))). reflexivity.
Qed.

Lemma indep_calls ptab : forall d f vs glob pre,
  pcallr binop cmpop unop truth cval is_and c1 P fuel ge ptab d f vs glob pre = pcallr binop cmpop unop truth cval is_and c2 P fuel ge ptab d f vs glob pre.
Proof. induction d as [|d IH]; intros f vs glob pre; [reflexivity|]. cbn [pcallr]. apply indep_step. exact IH. Qed.

Theorem pref_module_indep d m r :
  pref_module binop cmpop unop truth cval is_and c1 P fuel ge d m r = pref_module binop cmpop unop truth cval is_and c2 P fuel ge d m r.
Proof.
  unfold FragProg.pref_module, FragProg.pref_module0.
  rewrite (indep_list _ _ (prest m) (proj2 (Forall_forall _ _) (fun s _ => indep_stmt _ _ (indep_calls (pdefs_of (prest m)) d) s))). reflexivity.
Qed.
End RefIndep.

(* ================================================================ the statements the properties quote *)
Section FinalProg.
Variable binop : N -> val -> val -> res val.
Variable cmpop : N -> val -> val -> res bool.
Variable unop : N -> val -> res val.
Variable truth : val -> bool.
Variable cval : scalar -> val.
Variable is_and : N -> bool.
Variable fuel : nat.
Notation X := (fun c pol => prun binop cmpop unop truth cval is_and c pol fuel).
Notation RM := (fun c pol => pref_module binop cmpop unop truth cval is_and c pol fuel).

(* the instrumented program, whatever is subscribed and however the function guards are flipped, computes what the untouched source computes *)
Theorem prog_plain c ge pol c0 pol0 m d r sv sv' : forallb psrc_t m = true ->
  p_exc (X c pol d (pinstr_module c ge m) r sv) = p_exc (X c0 pol0 d m r sv') /\
  p_env (X c pol d (pinstr_module c ge m) r sv) = p_env (X c0 pol0 d m r sv').
Proof.
  intros Hs. destruct (pmodule_sim binop cmpop unop truth cval is_and c pol fuel ge m Hs d r sv) as (A1 & A2 & _).
  destruct (pplain_module binop cmpop unop truth cval is_and c pol fuel ge c0 pol0 m Hs d r sv') as (B1 & B2).
  rewrite A1, A2, B1, B2. split; reflexivity.
Qed.

Theorem prog_results c1 ge1 pol1 c2 ge2 pol2 m d r sv sv' : forallb psrc_t m = true ->
  p_exc (X c1 pol1 d (pinstr_module c1 ge1 m) r sv) = p_exc (X c2 pol2 d (pinstr_module c2 ge2 m) r sv') /\
  p_env (X c1 pol1 d (pinstr_module c1 ge1 m) r sv) = p_env (X c2 pol2 d (pinstr_module c2 ge2 m) r sv').
Proof.
  intros Hs. destruct (prog_plain c1 ge1 pol1 c1 pol1 m d r sv sv Hs) as (A1 & A2). destruct (prog_plain c2 ge2 pol2 c1 pol1 m d r sv' sv Hs) as (B1 & B2).
  rewrite A1, A2, B1, B2. split; reflexivity.
Qed.

(* ... and delivers the reference stream: every event of the fragment once per dynamic occurrence, in evaluation order, gated by the function guards *)
Theorem prog_stream c ge pol m d r sv : forallb psrc_t m = true ->
  filter_log c (p_log (X c pol d (pinstr_module c ge m) r sv)) = filter_log c (pr_log (RM c pol ge d m r)).
Proof. intros Hs. exact (proj2 (proj2 (pmodule_sim binop cmpop unop truth cval is_and c pol fuel ge m Hs d r sv))). Qed.

(* C03 on the fragment: as long as no handler touches a guard (the guards stay in any fixed state G), what a tracer sees for its events K does
   not depend on which further events E are subscribed *)
Theorem prog_projection K E (G : guard -> bool) ge m d r sv sv' : forallb psrc_t m = true -> (forall e, sub K e = true -> sub E e = true) ->
  filter_log K (p_log (prun binop cmpop unop truth cval is_and E (fun _ g => G g) fuel d (pinstr_module E ge m) r sv)) =
  filter_log K (p_log (prun binop cmpop unop truth cval is_and K (fun _ g => G g) fuel d (pinstr_module K ge m) r sv')).
Proof.
  intros Hs HKE.
  pose proof (prog_stream K ge (fun _ g => G g) m d r sv' Hs) as HK. pose proof (prog_stream E ge (fun _ g => G g) m d r sv Hs) as HE. cbv beta in HK, HE.
  rewrite HK. rewrite <- (filter_sub K E _ HKE), HE, (filter_sub K E _ HKE).
  rewrite (pref_module_indep binop cmpop unop truth cval is_and E K G fuel ge d m r). reflexivity.
Qed.
End FinalProg.
