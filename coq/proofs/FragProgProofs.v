(* Proofs about model/FragProg.v: loops and functions together (DESIGN 3, "FragProg"). *)
From Coq Require Import List ZArith NArith Bool Lia.
Import ListNotations.
From PyccoloV Require Import gen.PyAst gen.Ids gen.Events model.Tree model.Erase model.RwFrag model.FragSem model.FragFun model.FragProg
  proofs.RwFragProj proofs.FragSemProofs proofs.FragFunProofs.
Local Open Scope N_scope.

(* ---------------------------------------------------------------- source programs *)
(* statements of a function body / below the top level: no definitions *)
Fixpoint psrc_b (s : pstmt) : bool :=
  match s with
  | PExpr _ r | PAssign _ _ r => src_r r
  | PPass _ | PBreak _ | PContinue _ => true
  | PIf _ t b o | PWhile _ t b o => src_e t && forallb psrc_b b && forallb psrc_b o
  | PReturn _ None => true
  | PReturn _ (Some r) => src_r r
  | _ => false
  end.
Definition psrc_t (s : pstmt) : bool := match s with PDef _ _ _ body => forallb psrc_b body | _ => psrc_b s end.
