(* Proofs about model/Stack.v (C20). *)
From Coq Require Import List ZArith NArith Bool Lia.
Import ListNotations.
From PyccoloV Require Import model.Stack.

(* ---------------------------------------------------------------- dictionary lemmas *)
Lemma dget_dset_same m f v : dget (dset m f v) f = Some v.
Proof.
  induction m as [|[g w] m IH]; cbn; [now rewrite N.eqb_refl|].
  destruct (N.eqb g f) eqn:E; cbn; rewrite E; auto.
Qed.
Lemma dget_dset_other m f g v : f <> g -> dget (dset m g v) f = dget m f.
Proof.
  intros Hn. induction m as [|[h w] m IH]; cbn.
  - destruct (N.eqb g f) eqn:E; auto. apply N.eqb_eq in E; congruence.
  - destruct (N.eqb h g) eqn:E; cbn.
    + apply N.eqb_eq in E; subst h. destruct (N.eqb g f) eqn:E2; auto. apply N.eqb_eq in E2; congruence.
    + destruct (N.eqb h f); auto.
Qed.
Lemma dget_ddel_same m f : dget (ddel m f) f = None.
Proof.
  unfold ddel. induction m as [|[g w] m IH]; cbn; auto.
  destruct (N.eqb g f) eqn:E; cbn; auto. rewrite E; auto.
Qed.
Lemma dget_ddel_other m f g : f <> g -> dget (ddel m g) f = dget m f.
Proof.
  intros Hn. unfold ddel. induction m as [|[h w] m IH]; cbn; auto.
  destruct (N.eqb h g) eqn:E; cbn.
  - apply N.eqb_eq in E; subst h. destruct (N.eqb g f) eqn:E2; auto. apply N.eqb_eq in E2; congruence.
  - destruct (N.eqb h f); auto.
Qed.

Lemma dget_set_all_notin ns : forall m vs f, ~ In f ns -> dget (set_all m ns vs) f = dget m f.
Proof.
  induction ns as [|n ns IH]; intros m vs f Hn; cbn; auto.
  destruct vs as [|v vs]; auto. rewrite IH by (intro; apply Hn; now right).
  apply dget_dset_other. intro; subst; apply Hn; now left.
Qed.
Lemma get_all_length ns : forall m t, get_all m ns = Some t -> length t = length ns.
Proof.
  induction ns as [|n ns IH]; intros m t H; cbn in H.
  - now inversion H.
  - destruct (dget m n); [|discriminate]. destruct (get_all m ns) eqn:E; [|discriminate].
    inversion H; subst; cbn; f_equal; eauto.
Qed.
(* zip(names, tuple) restores, on ANY later dictionary, the values the names had when the tuple was taken *)
Lemma set_all_restores ns : forall m0 t, NoDup ns -> get_all m0 ns = Some t ->
  forall m f, In f ns -> dget (set_all m ns t) f = dget m0 f.
Proof.
  induction ns as [|n ns IH]; intros m0 t Hnd Hg m f Hin; [destruct Hin|].
  cbn in Hg. destruct (dget m0 n) eqn:En; [|discriminate]. destruct (get_all m0 ns) eqn:Eg; [|discriminate].
  inversion Hg; subst t; clear Hg. inversion Hnd as [|? ? Hnotin Hnd']; subst. cbn.
  destruct Hin as [->|Hin].
  - rewrite dget_set_all_notin by assumption. rewrite dget_dset_same. auto.
  - eapply IH; eauto.
Qed.
Lemma get_all_nth ns : forall m t i f, get_all m ns = Some t -> nth_error ns i = Some f ->
  exists v, nth_error t i = Some v /\ dget m f = Some v.
Proof.
  induction ns as [|n ns IH]; intros m t i f Hg Hn; [destruct i; discriminate|].
  cbn in Hg. destruct (dget m n) eqn:En; [|discriminate]. destruct (get_all m ns) eqn:Eg; [|discriminate].
  inversion Hg; subst t. destruct i; cbn in *.
  - inversion Hn; subst. eauto.
  - eapply IH; eauto.
Qed.
Lemma index_of_nth f ns : forall i, index_of f ns = Some i -> nth_error ns i = Some f.
Proof.
  induction ns as [|n ns IH]; intros i H; cbn in H; [discriminate|].
  destruct (N.eqb n f) eqn:E.
  - inversion H; subst. apply N.eqb_eq in E; subst; reflexivity.
  - destruct (index_of f ns); [|discriminate]. inversion H; subst. cbn. auto.
Qed.
Lemma index_of_in f ns : In f ns -> exists i, index_of f ns = Some i.
Proof.
  induction ns as [|n ns IH]; intros H; [destruct H|]. cbn.
  destruct (N.eqb n f) eqn:E; eauto.
  destruct H as [->|H]; [rewrite N.eqb_refl in E; discriminate|].
  destruct (IH H) as [i ->]. cbn; eauto.
Qed.

Lemma dget_reinit_notin au : forall m f, ~ In f (map fst au) -> dget (reinit m au) f = dget m f.
Proof.
  unfold reinit. induction au as [|[g i] au IH]; intros m f Hn; cbn; auto.
  rewrite IH by (intro; apply Hn; now right). apply dget_dset_other. intro; subst; apply Hn; now left.
Qed.
Lemma dget_reinit_in au : forall m f i, NoDup (map fst au) -> In (f, i) au -> dget (reinit m au) f = Some (run_init i).
Proof.
  unfold reinit. induction au as [|[g j] au IH]; intros m f i Hnd Hin; [destruct Hin|].
  cbn in Hnd. inversion Hnd as [|? ? Hnotin Hnd']; subst. cbn. destruct Hin as [Heq|Hin].
  - inversion Heq; subst. fold (reinit (dset m f (run_init i)) au). rewrite dget_reinit_notin by assumption.
    apply dget_dset_same.
  - eapply IH; eauto.
Qed.
Lemma dget_del_all_notin ns : forall m f, ~ In f ns -> dget (del_all m ns) f = dget m f.
Proof.
  unfold del_all. induction ns as [|n ns IH]; intros m f Hn; cbn; auto.
  rewrite IH by (intro; apply Hn; now right). apply dget_ddel_other. intro; subst; apply Hn; now left.
Qed.
Lemma dget_del_all_in ns : forall m f, In f ns -> dget (del_all m ns) f = None.
Proof.
  unfold del_all. induction ns as [|n ns IH]; intros m f Hin; [destruct Hin|]. cbn.
  destruct (in_dec N.eq_dec f ns) as [Hi|Hni]; [now apply IH|].
  destruct Hin as [->|Hin]; [|contradiction].
  fold (del_all (ddel m f) ns). rewrite dget_del_all_notin by assumption. apply dget_ddel_same.
Qed.

(* ---------------------------------------------------------------- well-formed registrations *)
Record wf_decl (s : field) (d : decl) : Prop := {
  wf_nodup : NoDup (names d);
  wf_self : ~ In s (names d) }.
Definition wf (ds : decls) : Prop := forall s d, decl_of ds s = Some d -> wf_decl s d.

Lemma names_auto d f : In f (map fst (auto d)) -> In f (names d).
Proof. unfold names; intros; apply in_or_app; now left. Qed.
Lemma names_manual d f : In f (manual d) -> In f (names d).
Proof. unfold names; intros; apply in_or_app; now right. Qed.
Lemma nodup_auto d : NoDup (names d) -> NoDup (map fst (auto d)).
Proof.
  unfold names. induction (map fst (auto d)) as [|x xs IH]; cbn; intros H; [constructor|].
  inversion H; subst. constructor; auto. intro Hx; apply H2; apply in_or_app; now left.
Qed.
Lemma auto_manual_disjoint d f : NoDup (names d) -> In f (map fst (auto d)) -> ~ In f (manual d).
Proof.
  unfold names. intros Hnd Ha Hm. induction (map fst (auto d)) as [|x xs IH]; [destruct Ha|].
  cbn in Hnd. inversion Hnd; subst. destruct Ha as [->|Ha]; auto.
  apply H1. apply in_or_app; now right.
Qed.

(* ---------------------------------------------------------------- single steps *)
Definition is_err (o : out) : bool :=
  match o with ErrKey | ErrIndex | ErrValue | ErrAttr => true | _ => false end.

Definition pushed (ds : decls) (m : mgr) (s : field) (d : decl) (fr : list (list val)) (t : list val) : mgr :=
  del_all (reinit (dset m s (VStack (fr ++ [t]))) (auto d)) (manual d).

Lemma step_push_inv ds m s m' r : step ds m (OPush s) = (m', r) -> is_err r = false ->
  exists d fr t, decl_of ds s = Some d /\ frames_of m s = Some fr /\ get_all m (names d) = Some t
                 /\ m' = pushed ds m s d fr t.
Proof.
  cbn. intros H He.
  destruct (decl_of ds s) as [d|] eqn:Ed; [|inversion H; subst; discriminate].
  destruct (frames_of m s) as [fr|] eqn:Ef; [|inversion H; subst; discriminate].
  destruct (get_all m (names d)) as [t|] eqn:Eg; inversion H; subst; [|discriminate].
  exists d, fr, t; auto.
Qed.

Lemma frames_of_dset_same m s fr : frames_of (dset m s (VStack fr)) s = Some fr.
Proof. unfold frames_of. now rewrite dget_dset_same. Qed.
Lemma frames_of_eq m m' s : dget m' s = dget m s -> frames_of m' s = frames_of m s.
Proof. unfold frames_of. now intros ->. Qed.

Lemma pushed_get_self ds m s d fr t : wf_decl s d -> dget (pushed ds m s d fr t) s = Some (VStack (fr ++ [t])).
Proof.
  intros [Hnd Hs]. unfold pushed.
  rewrite dget_del_all_notin by (intro; apply Hs; now apply names_manual).
  rewrite dget_reinit_notin by (intro; apply Hs; now apply names_auto).
  apply dget_dset_same.
Qed.
Lemma pushed_get_other ds m s d fr t g : g <> s -> ~ In g (names d) -> dget (pushed ds m s d fr t) g = dget m g.
Proof.
  intros Hgs Hn. unfold pushed.
  rewrite dget_del_all_notin by (intro; apply Hn; now apply names_manual).
  rewrite dget_reinit_notin by (intro; apply Hn; now apply names_auto).
  now apply dget_dset_other.
Qed.
Lemma pushed_get_auto ds m s d fr t f i : wf_decl s d -> In (f, i) (auto d) ->
  dget (pushed ds m s d fr t) f = Some (run_init i).
Proof.
  intros [Hnd Hs] Hin. unfold pushed.
  assert (Hf : In f (map fst (auto d))) by (apply in_map_iff; exists (f, i); auto).
  rewrite dget_del_all_notin by (now apply auto_manual_disjoint).
  eapply dget_reinit_in; eauto. now apply nodup_auto.
Qed.
Lemma pushed_get_manual ds m s d fr t f : In f (manual d) -> dget (pushed ds m s d fr t) f = None.
Proof. intros. unfold pushed. now apply dget_del_all_in. Qed.

(* the state after a successful pop, given the frames *)
Lemma do_pop_snoc d m s fr t : do_pop d m s (fr ++ [t]) = (set_all (dset m s (VStack fr)) (names d) t, Done).
Proof. unfold do_pop. rewrite rev_app_distr. cbn. now rewrite rev_involutive. Qed.

(* ---------------------------------------------------------------- well-nested blocks *)
Definition is_mut (o : op) : bool :=
  match o with OSet _ _ | OAppend _ _ | OAppendIn _ _ _ | ORead _ _ _ | OLen _ | OPushCheck _ => true | _ => false end.
Inductive wn : list op -> Prop :=
  | wn_nil : wn []
  | wn_mut o B : is_mut o = true -> wn B -> wn (o :: B)
  | wn_pair s B1 B2 : wn B1 -> wn B2 -> wn (OPush s :: B1 ++ OPop s :: B2).

Definition all_ok (rs : list out) : bool := forallb (fun r => negb (is_err r)) rs.

Lemma run_app ds : forall A m B, run ds m (A ++ B) =
  let '(m1, r1) := run ds m A in let '(m2, r2) := run ds m1 B in (m2, r1 ++ r2).
Proof.
  induction A as [|o A IH]; intros m B; cbn.
  - destruct (run ds m B); reflexivity.
  - destruct (step ds m o) as [m1 r]. rewrite IH. destruct (run ds m1 A) as [m2 r2].
    destruct (run ds m2 B); reflexivity.
Qed.

(* mutation ops never change which frames a stack attribute holds *)
Lemma step_mut_frames ds m o m' r : is_mut o = true -> step ds m o = (m', r) ->
  forall s, frames_of m' s = frames_of m s.
Proof.
  intros Hm Hs s. destruct o; try discriminate; cbn in Hs.
  - destruct (decl_of ds s0); [destruct (forallb _ _)|]; inversion Hs; subst; auto.
  - destruct v; destruct (dget m g) as [[]|] eqn:Eg; inversion Hs; subst; auto;
      (destruct (N.eq_dec s g) as [->|Hne];
       [unfold frames_of; rewrite dget_dset_same, Eg; reflexivity
       |apply frames_of_eq; now apply dget_dset_other]).
  - destruct (dget m g) as [[]|] eqn:Eg; inversion Hs; subst; auto.
    destruct (N.eqb k 3); inversion Hs; subst; auto.
    destruct (N.eq_dec s g) as [->|Hne];
      [unfold frames_of; rewrite dget_dset_same, Eg; reflexivity|apply frames_of_eq; now apply dget_dset_other].
  - destruct (dget m g) as [[]|] eqn:Eg; inversion Hs; subst; auto.
    match type of Hs with context [nth_error ?l ?j] => destruct (nth_error l j) end; inversion Hs; subst; auto.
    destruct (N.eq_dec s g) as [->|Hne];
      [unfold frames_of; rewrite dget_dset_same, Eg; reflexivity|apply frames_of_eq; now apply dget_dset_other].
  - destruct (decl_of ds s0); [|inversion Hs; subst; auto].
    destruct (frames_of m s0); [|inversion Hs; subst; auto].
    destruct (py_index l h); [|inversion Hs; subst; auto].
    destruct (index_of g (names d)); [|inversion Hs; subst; auto].
    destruct (nth_error l0 n); inversion Hs; subst; auto.
  - destruct (frames_of m s0); inversion Hs; subst; auto.
Qed.

(* Main invariant.  For a well-nested block B run successfully from m:
   every stack attribute holds the same frames afterwards (LIFO discipline), and running
   `push s; B; pop s` puts every field registered with s back to its value in m. *)
Theorem frames_preserved ds : wf ds -> forall B, wn B -> forall m m' rs,
  run ds m B = (m', rs) -> all_ok rs = true -> forall s, frames_of m' s = frames_of m s.
Proof.
  intros Hwf B Hwn. induction Hwn as [|o B Hm Hwn IH|s0 B1 B2 Hw1 IH1 Hw2 IH2]; intros m m' rs Hr Hok s.
  - cbn in Hr. inversion Hr; subst; auto.
  - cbn in Hr. destruct (step ds m o) as [m1 r] eqn:Es. destruct (run ds m1 B) as [m2 rs2] eqn:Er.
    inversion Hr; subst. cbn in Hok. apply andb_prop in Hok as [_ Hok].
    rewrite (IH _ _ _ Er Hok). eapply step_mut_frames; eauto.
  - cbn [run] in Hr. destruct (step ds m (OPush s0)) as [m1 r1] eqn:Es.
    change (B1 ++ OPop s0 :: B2) with (B1 ++ [OPop s0] ++ B2) in Hr.
    rewrite run_app in Hr. destruct (run ds m1 B1) as [m2 rs1] eqn:E1.
    rewrite run_app in Hr. cbn [run] in Hr. destruct (step ds m2 (OPop s0)) as [m3 r3] eqn:Ep.
    destruct (run ds m3 B2) as [m4 rs2] eqn:E2. inversion Hr; subst; clear Hr.
    cbn in Hok. apply andb_prop in Hok as [Hr1 Hok]. unfold all_ok in Hok.
    rewrite forallb_app in Hok. apply andb_prop in Hok as [Hok1 Hok]. cbn in Hok.
    apply andb_prop in Hok as [Hr3 Hok2].
    apply negb_true_iff in Hr1. destruct (step_push_inv _ _ _ _ _ Es Hr1) as (d & fr & t & Hd & Hfr & Hga & ->).
    specialize (Hwf _ _ Hd). pose proof Hwf as [Hnd Hself].
    rewrite (IH2 _ _ _ E2 Hok2).
    assert (Hf2 : frames_of m2 s0 = Some (fr ++ [t])).
    { rewrite (IH1 _ _ _ E1 Hok1). unfold frames_of. now rewrite pushed_get_self. }
    cbn in Ep. rewrite Hd, Hf2, do_pop_snoc in Ep. inversion Ep; subst; clear Ep.
    destruct (N.eq_dec s s0) as [->|Hne].
    + unfold frames_of. rewrite dget_set_all_notin by assumption. rewrite dget_dset_same.
      unfold frames_of in Hfr. destruct (dget m s0) as [[]|]; congruence.
    + destruct (in_dec N.eq_dec s (names d)) as [Hin|Hnin].
      * apply frames_of_eq. eapply set_all_restores; eauto.
      * unfold frames_of. rewrite dget_set_all_notin by assumption.
        rewrite dget_dset_other by assumption.
        pose proof (IH1 _ _ _ E1 Hok1 s) as Hk. unfold frames_of in Hk.
        rewrite pushed_get_other in Hk by assumption. exact Hk.
Qed.

Theorem push_pop_restores ds : wf ds -> forall s B, wn B -> forall m m' rs,
  run ds m (OPush s :: B ++ [OPop s]) = (m', rs) -> all_ok rs = true ->
  exists d, decl_of ds s = Some d /\
    (forall f, In f (names d) -> dget m' f = dget m f) /\ frames_of m' s = frames_of m s.
Proof.
  intros Hwf s B Hwn m m' rs Hr Hok.
  assert (Hw : wn (OPush s :: B ++ OPop s :: [])) by (apply wn_pair; auto; constructor).
  pose proof (frames_preserved ds Hwf _ Hw _ _ _ Hr Hok s) as Hfp.
  cbn [run] in Hr. destruct (step ds m (OPush s)) as [m1 r1] eqn:Es.
  rewrite run_app in Hr. destruct (run ds m1 B) as [m2 rs1] eqn:E1. cbn [run] in Hr.
  destruct (step ds m2 (OPop s)) as [m3 r3] eqn:Ep. inversion Hr; subst; clear Hr.
  cbn in Hok. apply andb_prop in Hok as [Hr1 Hok]. unfold all_ok in Hok.
  rewrite forallb_app in Hok. apply andb_prop in Hok as [Hok1 Hok].
  apply negb_true_iff in Hr1. destruct (step_push_inv _ _ _ _ _ Es Hr1) as (d & fr & t & Hd & Hfr & Hga & ->).
  pose proof (Hwf _ _ Hd) as [Hnd Hself].
  assert (Hf2 : frames_of m2 s = Some (fr ++ [t])).
  { rewrite (frames_preserved ds Hwf _ Hwn _ _ _ E1 Hok1). unfold frames_of. rewrite pushed_get_self by (split; assumption). reflexivity. }
  cbn in Ep. rewrite Hd, Hf2, do_pop_snoc in Ep. inversion Ep; subst; clear Ep.
  exists d. repeat split; auto. intros f Hin. eapply set_all_restores; eauto.
Qed.

(* push: saves and resets *)
Theorem push_resets ds : wf ds -> forall s m m' r, step ds m (OPush s) = (m', r) -> is_err r = false ->
  exists d fr t, decl_of ds s = Some d /\ frames_of m s = Some fr /\ get_all m (names d) = Some t /\
    frames_of m' s = Some (fr ++ [t]) /\
    (forall f i, In (f, i) (auto d) -> dget m' f = Some (run_init i)) /\
    (forall f, In f (manual d) -> dget m' f = None) /\
    (forall g, g <> s -> ~ In g (names d) -> dget m' g = dget m g).
Proof.
  intros Hwf s m m' r Hs He. destruct (step_push_inv _ _ _ _ _ Hs He) as (d & fr & t & Hd & Hfr & Hga & ->).
  pose proof (Hwf _ _ Hd) as Hw. exists d, fr, t. repeat split; auto.
  - unfold frames_of. now rewrite pushed_get_self.
  - intros; eapply pushed_get_auto; eauto.
  - intros; now apply pushed_get_manual.
  - intros; now apply pushed_get_other.
Qed.

(* get_field at depth 1 (height -1) after push s; B  returns the value the field had before the push *)
Lemma py_index_last {A} (l : list A) x : py_index (l ++ [x]) (-1) = Some x.
Proof.
  unfold py_index. rewrite app_length. cbn [length]. 
  replace (Z.of_nat (length l + 1) + -1)%Z with (Z.of_nat (length l)) by lia.
  cbn. replace ((0 <=? Z.of_nat (length l))%Z) with true by (symmetry; apply Z.leb_le; lia).
  replace ((Z.of_nat (length l) <? Z.of_nat (length l + 1))%Z) with true by (symmetry; apply Z.ltb_lt; lia).
  cbn. rewrite Nat2Z.id. rewrite nth_error_app2 by lia. now rewrite Nat.sub_diag.
Qed.
Lemma py_index_deeper {A} (l : list A) x (k : nat) : (1 <= k)%nat ->
  py_index (l ++ [x]) (- Z.of_nat (S k)) = py_index l (- Z.of_nat k).
Proof.
  intros Hk. unfold py_index. rewrite app_length. cbn [length].
  replace (- Z.of_nat (S k) <? 0)%Z with true by (symmetry; apply Z.ltb_lt; lia).
  replace (- Z.of_nat k <? 0)%Z with true by (symmetry; apply Z.ltb_lt; lia).
  replace (Z.of_nat (length l + 1) + - Z.of_nat (S k))%Z with (Z.of_nat (length l) + - Z.of_nat k)%Z by lia.
  destruct (0 <=? Z.of_nat (length l) + - Z.of_nat k)%Z eqn:E1; cbn; auto.
  apply Z.leb_le in E1.
  replace (Z.of_nat (length l) + - Z.of_nat k <? Z.of_nat (length l + 1))%Z with true by (symmetry; apply Z.ltb_lt; lia).
  replace (Z.of_nat (length l) + - Z.of_nat k <? Z.of_nat (length l))%Z with true by (symmetry; apply Z.ltb_lt; lia).
  apply nth_error_app1. lia.
Qed.

Theorem read_depth_1 ds : wf ds -> forall s B, wn B -> forall m m1 rs g,
  run ds m (OPush s :: B) = (m1, rs) -> all_ok rs = true ->
  forall d, decl_of ds s = Some d -> In g (names d) ->
  exists v, dget m g = Some v /\ step ds m1 (ORead s g (-1)) = (m1, OutVal v).
Proof.
  intros Hwf s B Hwn m m1 rs g Hr Hok d Hd Hin.
  cbn [run] in Hr. destruct (step ds m (OPush s)) as [m0 r1] eqn:Es.
  destruct (run ds m0 B) as [m2 rs1] eqn:E1. inversion Hr; subst; clear Hr.
  cbn in Hok. apply andb_prop in Hok as [Hr1 Hok1]. apply negb_true_iff in Hr1.
  destruct (step_push_inv _ _ _ _ _ Es Hr1) as (d' & fr & t & Hd' & Hfr & Hga & ->).
  rewrite Hd in Hd'. inversion Hd'; subst d'. pose proof (Hwf _ _ Hd) as Hw.
  assert (Hf2 : frames_of m1 s = Some (fr ++ [t])).
  { rewrite (frames_preserved ds Hwf _ Hwn _ _ _ E1 Hok1). unfold frames_of. now rewrite pushed_get_self. }
  destruct (index_of_in _ _ Hin) as [i Hi]. pose proof (index_of_nth _ _ _ Hi) as Hn.
  destruct (get_all_nth _ _ _ _ _ Hga Hn) as (v & Hv & Hg).
  exists v. split; auto. cbn. rewrite Hd, Hf2, py_index_last, Hi, Hv. reflexivity.
Qed.

(* ... and reading one level deeper after a push is reading at the previous depth before it *)
Theorem read_deeper ds : wf ds -> forall s B, wn B -> forall m m1 rs g k,
  run ds m (OPush s :: B) = (m1, rs) -> all_ok rs = true -> (1 <= k)%nat ->
  snd (step ds m1 (ORead s g (- Z.of_nat (S k)))) = snd (step ds m (ORead s g (- Z.of_nat k))).
Proof.
  intros Hwf s B Hwn m m1 rs g k Hr Hok Hk.
  cbn [run] in Hr. destruct (step ds m (OPush s)) as [m0 r1] eqn:Es.
  destruct (run ds m0 B) as [m2 rs1] eqn:E1. inversion Hr; subst; clear Hr.
  cbn in Hok. apply andb_prop in Hok as [Hr1 Hok1]. apply negb_true_iff in Hr1.
  destruct (step_push_inv _ _ _ _ _ Es Hr1) as (d & fr & t & Hd & Hfr & Hga & ->).
  pose proof (Hwf _ _ Hd) as Hw.
  assert (Hf2 : frames_of m1 s = Some (fr ++ [t])).
  { rewrite (frames_preserved ds Hwf _ Hwn _ _ _ E1 Hok1). unfold frames_of. now rewrite pushed_get_self. }
  cbn -[Z.of_nat]. rewrite Hd, Hf2, Hfr. rewrite py_index_deeper by assumption.
  destruct (py_index fr (- Z.of_nat k)); cbn; auto.
  destruct (index_of g (names d)); cbn; auto. destruct (nth_error l n); auto.
Qed.

(* clear: after any number of unmatched pushes (each followed by a well-nested block) starting from an empty
   stack, clearing puts every registered field back to its value before the first push and empties the stack *)
Inductive pushes (s : field) : list op -> Prop :=
  | pushes_one B : wn B -> pushes s (OPush s :: B)
  | pushes_more P B : pushes s P -> wn B -> pushes s (P ++ OPush s :: B).

Lemma pushes_frames ds : wf ds -> forall s P, pushes s P -> forall m m' rs fr0,
  run ds m P = (m', rs) -> all_ok rs = true -> frames_of m s = Some fr0 ->
  exists d t rest, decl_of ds s = Some d /\ get_all m (names d) = Some t /\ frames_of m' s = Some (fr0 ++ t :: rest).
Proof.
  intros Hwf s P HP. induction HP as [B Hwn|P B HP IH Hwn]; intros m m' rs fr0 Hr Hok Hfr.
  - cbn [run] in Hr. destruct (step ds m (OPush s)) as [m0 r1] eqn:Es.
    destruct (run ds m0 B) as [m2 rs1] eqn:E1. inversion Hr; subst; clear Hr.
    cbn in Hok. apply andb_prop in Hok as [Hr1 Hok1]. apply negb_true_iff in Hr1.
    destruct (step_push_inv _ _ _ _ _ Es Hr1) as (d & fr & t & Hd & Hfr' & Hga & ->).
    rewrite Hfr in Hfr'. inversion Hfr'; subst fr. pose proof (Hwf _ _ Hd) as Hw.
    exists d, t, []. repeat split; auto.
    rewrite (frames_preserved ds Hwf _ Hwn _ _ _ E1 Hok1). unfold frames_of. now rewrite pushed_get_self.
  - rewrite run_app in Hr. destruct (run ds m P) as [ma rsa] eqn:Ea.
    destruct (run ds ma (OPush s :: B)) as [mb rsb] eqn:Eb. inversion Hr; subst; clear Hr.
    unfold all_ok in Hok. rewrite forallb_app in Hok. apply andb_prop in Hok as [Hoka Hokb].
    destruct (IH _ _ _ _ Ea Hoka Hfr) as (d & t & rest & Hd & Hga & Hfa).
    cbn [run] in Eb. destruct (step ds ma (OPush s)) as [m0 r1] eqn:Es.
    destruct (run ds m0 B) as [m2 rs1] eqn:E1. inversion Eb; subst; clear Eb.
    cbn in Hokb. apply andb_prop in Hokb as [Hr1 Hok1]. apply negb_true_iff in Hr1.
    destruct (step_push_inv _ _ _ _ _ Es Hr1) as (d' & fr & t' & Hd' & Hfr' & Hga' & ->).
    rewrite Hfa in Hfr'. inversion Hfr'; subst fr. rewrite Hd in Hd'. inversion Hd'; subst d'.
    pose proof (Hwf _ _ Hd) as Hw.
    exists d, t, (rest ++ [t']). repeat split; auto.
    rewrite (frames_preserved ds Hwf _ Hwn _ _ _ E1 Hok1). unfold frames_of. rewrite pushed_get_self by assumption.
    now rewrite <- app_assoc.
Qed.

Theorem clear_restores ds : wf ds -> forall s P, pushes s P -> forall m m' rs,
  run ds m P = (m', rs) -> all_ok rs = true -> frames_of m s = Some [] ->
  exists d m'', decl_of ds s = Some d /\ step ds m' (OClear s) = (m'', Done) /\
    frames_of m'' s = Some [] /\ (forall f, In f (names d) -> dget m'' f = dget m f).
Proof.
  intros Hwf s P HP m m' rs Hr Hok Hfr.
  destruct (pushes_frames ds Hwf s P HP _ _ _ _ Hr Hok Hfr) as (d & t & rest & Hd & Hga & Hf).
  pose proof (Hwf _ _ Hd) as [Hnd Hself]. cbn [app] in Hf.
  exists d. eexists. split; [exact Hd|]. cbn. rewrite Hd, Hf. cbn.
  split; [reflexivity|]. split.
  - unfold frames_of. rewrite dget_set_all_notin by assumption. rewrite dget_dset_same. reflexivity.
  - intros f Hin. eapply set_all_restores; eauto.
Qed.

(* ---------------------------------------------------------------- registration *)
Lemma in_filter_names keys man f :
  In f (map fst (map (fun fv : field * val => (fst fv, init_of (snd fv)))
                     (filter (fun fv => negb (mem (fst fv) man)) keys)) ++ man)
  <-> In f (map fst keys) \/ In f man.
Proof.
  rewrite in_app_iff, map_map. cbn. split.
  - intros [H|H]; auto. apply in_map_iff in H as ((g, v) & <- & Hin). apply filter_In in Hin as [Hin _].
    left. apply in_map_iff. exists (g, v); auto.
  - intros [H|H]; auto. destruct (mem f man) eqn:E.
    + right. unfold mem in E. apply existsb_exists in E as (x & Hx & Hx2). apply N.eqb_eq in Hx2; subst; auto.
    + left. apply in_map_iff in H as ((g, v) & <- & Hin). apply in_map_iff. exists (g, v). split; auto.
      apply filter_In. split; auto. cbn in *. now rewrite E.
Qed.

Lemma direct_manual_keys items f i : In (f, i) (direct_manual items) -> In f (map fst (flat_map collect items)).
Proof.
  unfold direct_manual. intros H. apply in_flat_map in H as (it & Hit & Hin).
  destruct it as [g v [j|]|g its]; cbn in Hin; try destruct Hin as [Heq|[]]; try destruct Hin.
  inversion Heq; subst. apply in_map_iff. exists (f, v). split; auto.
  apply in_flat_map. exists (DField f v (Some i)). split; auto. now left.
Qed.

(* every attribute assigned inside a register_stack_state block is a registered name of that stack, and nothing else is *)
Theorem registers_every_field items f :
  In f (names (block_decl items)) <-> In f (map fst (flat_map collect items)).
Proof.
  unfold names, block_decl. cbn [auto manual]. rewrite in_filter_names. split; [|auto].
  intros [H|H]; auto.
  apply in_map_iff in H as ((g, i) & <- & Hin).
  eapply direct_manual_keys; eauto.
Qed.

(* ---------------------------------------------------------------- decidable well-formedness *)
Fixpoint nodupb (l : list field) : bool :=
  match l with [] => true | x :: l' => negb (mem x l') && nodupb l' end.
Lemma mem_In x l : mem x l = true <-> In x l.
Proof.
  unfold mem. rewrite existsb_exists. split.
  - intros (y & Hy & E). apply N.eqb_eq in E; now subst.
  - intros H. exists x. split; auto. apply N.eqb_refl.
Qed.
Lemma nodupb_sound l : nodupb l = true -> NoDup l.
Proof.
  induction l as [|x l IH]; cbn; intros H; constructor; apply andb_prop in H as [H1 H2]; auto.
  intro Hin. apply mem_In in Hin. rewrite Hin in H1. discriminate.
Qed.
Definition wf_b (ds : decls) : bool :=
  forallb (fun sd => nodupb (names (snd sd)) && negb (mem (fst sd) (names (snd sd)))) ds.
Lemma decl_of_In ds s d : decl_of ds s = Some d -> In (s, d) ds.
Proof.
  induction ds as [|[g e] ds IH]; cbn; [discriminate|].
  destruct (N.eqb g s) eqn:E; intros H.
  - inversion H; subst. apply N.eqb_eq in E; subst. now left.
  - right; auto.
Qed.
Theorem wf_b_sound ds : wf_b ds = true -> wf ds.
Proof.
  unfold wf_b, wf. rewrite forallb_forall. intros H s d Hd. apply decl_of_In in Hd.
  specialize (H _ Hd). cbn in H. apply andb_prop in H as [H1 H2]. split.
  - now apply nodupb_sound.
  - intro Hin. apply mem_In in Hin. rewrite Hin in H2. discriminate.
Qed.
