(* Soundness of the generic bottom-up erasure `erase_gen pst` for EVERY semantics of the generic tree and every
   equivalence on denotation sequences under which each root rewrite of `pst` is valid; instantiated with the K-erasure
   `postk K` and an equivalence "same behaviour, same sub-stream of the kept events" it gives the certificate theorems
   of C03 / C05: two rewriter outputs whose K-erasures coincide deliver the same K-stream.
   The laws are Section hypotheses: after the section they are explicit premises (no axioms). *)
From Coq Require Import List ZArith NArith Bool.
Import ListNotations.
From PyccoloV Require Import gen.PyAst gen.Ids gen.Events model.Tree model.Erase model.Prune proofs.EraseSound.

Definition erase_gen_list pst (l : list tree) : option (list tree) :=
  (fix gol (u : list tree) {struct u} : option (list tree) :=
     match u with
     | [] => Some []
     | x :: u' => match erase_gen pst x, gol u' with Some a, Some b => Some (a ++ b) | _, _ => None end
     end) l.
Definition erase_gen_fields pst (fs : list (list tree)) : option (list (list tree)) :=
  (fix gof (l : list (list tree)) {struct l} : option (list (list tree)) :=
     match l with
     | [] => Some []
     | f :: l' => match erase_gen_list pst f, gof l' with Some a, Some b => Some (a :: b) | _, _ => None end
     end) fs.
Lemma erase_gen_T pst k sc fs :
  erase_gen pst (T k sc fs) = match erase_gen_fields pst fs with Some fs' => pst k sc fs' | None => None end.
Proof. reflexivity. Qed.

Lemma trees_eqb_eq : forall a b, trees_eqb a b = true -> a = b.
Proof.
  induction a as [|x a IH]; intros [|y b] H; cbn in H; try discriminate; auto.
  apply andb_prop in H as [H1 H2]. f_equal; [now apply tree_eqb_eq|now apply IH].
Qed.

Section Gen.
  Variable D : Type.
  Variable dnone : D.
  Variable sem : N -> list scalar -> list (list D) -> D.
  Notation den := (den D dnone sem).
  Variable eqv : list D -> list D -> Prop.
  Hypothesis eqv_refl : forall l, eqv l l.
  Hypothesis eqv_sym : forall a b, eqv a b -> eqv b a.
  Hypothesis eqv_trans : forall a b c, eqv a b -> eqv b c -> eqv a c.
  Hypothesis eqv_app : forall a a' b b', eqv a a' -> eqv b b' -> eqv (a ++ b) (a' ++ b').
  Hypothesis sem_cong : forall k sc fs fs', Forall2 eqv fs fs' -> eqv [sem k sc fs] [sem k sc fs'].
  Variable pst : N -> list scalar -> list (list tree) -> option (list tree).
  (* every root rewrite is valid in the semantics *)
  Hypothesis pst_law : forall k sc fs l, pst k sc fs = Some l -> eqv [den (T k sc fs)] (map den l).

  Lemma erase_gen_list_sound f : Forall (fun t => forall l, erase_gen pst t = Some l -> eqv [den t] (map den l)) f ->
    forall l, erase_gen_list pst f = Some l -> eqv (map den f) (map den l).
  Proof.
    induction 1 as [|x f Hx _ IH]; intros l H; cbn in H.
    - inversion H; subst. apply eqv_refl.
    - destruct (erase_gen pst x) as [a|] eqn:Ex; [|discriminate].
      fold (erase_gen_list pst f) in H. destruct (erase_gen_list pst f) as [b|] eqn:Ef; [|discriminate].
      inversion H; subst. rewrite map_app. change (map den (x :: f)) with ([den x] ++ map den f).
      apply eqv_app; auto.
  Qed.

  Lemma erase_gen_fields_sound fs : Forall (Forall (fun t => forall l, erase_gen pst t = Some l -> eqv [den t] (map den l))) fs ->
    forall fs', erase_gen_fields pst fs = Some fs' -> Forall2 eqv (map (map den) fs) (map (map den) fs').
  Proof.
    induction 1 as [|f fs Hf _ IH]; intros fs' H; cbn in H.
    - inversion H; subst. constructor.
    - fold (erase_gen_list pst f) in H. destruct (erase_gen_list pst f) as [a|] eqn:Ea; [|discriminate].
      fold (erase_gen_fields pst fs) in H. destruct (erase_gen_fields pst fs) as [b|] eqn:Eb; [|discriminate].
      inversion H; subst. cbn. constructor; auto. now apply erase_gen_list_sound.
  Qed.

  Theorem erase_gen_sound : forall t l, erase_gen pst t = Some l -> eqv [den t] (map den l).
  Proof.
    induction t as [|k sc fs IH] using tree_ind2; intros l H.
    - cbn in H. inversion H; subst. apply eqv_refl.
    - rewrite erase_gen_T in H. destruct (erase_gen_fields pst fs) as [fs'|] eqn:Ef; [|discriminate].
      pose proof (erase_gen_fields_sound fs IH fs' Ef) as HF.
      eapply eqv_trans; [|apply (pst_law k sc fs' l H)].
      rewrite !den_T. apply sem_cong. exact HF.
  Qed.

  (* two trees with the same erasure are equivalent *)
  Theorem same_erasure_equiv t1 t2 a b :
    erase_gen pst t1 = Some a -> erase_gen pst t2 = Some b -> trees_eqb a b = true -> eqv [den t1] [den t2].
  Proof.
    intros H1 H2 E. apply trees_eqb_eq in E. subst b.
    eapply eqv_trans; [apply (erase_gen_sound t1 a H1)|]. apply eqv_sym. apply (erase_gen_sound t2 a H2).
  Qed.
End Gen.

(* ---- instance: the K-erasure *)
Theorem check_proj_sound :
  forall (D : Type) (dnone : D) (sem : N -> list scalar -> list (list D) -> D) (K : list N) (eqvK : list D -> list D -> Prop),
  (forall l, eqvK l l) ->
  (forall a b, eqvK a b -> eqvK b a) ->
  (forall a b c, eqvK a b -> eqvK b c -> eqvK a c) ->
  (forall a a' b b', eqvK a a' -> eqvK b b' -> eqvK (a ++ b) (a' ++ b')) ->
  (forall k sc fs fs', Forall2 eqvK fs fs' -> eqvK [sem k sc fs] [sem k sc fs']) ->
  (forall k sc fs l, postk K k sc fs = Some l -> eqvK [den D dnone sem (T k sc fs)] (map (den D dnone sem) l)) ->
  forall out1 out2, check_proj K out1 out2 = true -> eqvK [den D dnone sem out1] [den D dnone sem out2].
Proof.
  intros D dnone sem K eqvK Hr Hs Ht Ha Hc Hl out1 out2 H. unfold check_proj, erasek in H.
  destruct (erase_gen (postk K) out1) as [a|] eqn:E1; [|discriminate].
  destruct (erase_gen (postk K) out2) as [b|] eqn:E2; [|discriminate].
  exact (same_erasure_equiv D dnone sem eqvK Hr Hs Ht Ha Hc (postk K) Hl out1 out2 a b E1 E2 H).
Qed.

(* the rewritten tree contains emission sites only for allowed events *)
Theorem check_only_subscribed_sound subscribed out :
  check_only_subscribed subscribed out = true ->
  forall ev nid, In (ev, nid) (sites out) -> site_allowed subscribed ev = true.
Proof.
  unfold check_only_subscribed. rewrite forallb_forall. intros H ev nid Hin. exact (H (ev, nid) Hin).
Qed.

(* the kept sites of a tree are unchanged by ... themselves: a tree with no site outside K has all its sites kept *)
Lemma kept_sites_all K out : forallb (fun s => mem (fst s) K) (sites out) = true -> kept_sites K out = sites out.
Proof.
  unfold kept_sites. induction (sites out) as [|s l IH]; cbn; [reflexivity|].
  intros H. apply andb_prop in H as [H1 H2]. rewrite H1. now rewrite IH.
Qed.
