(* Proofs about model/FragOv.v: handlers that override - the instrumented term against the override reference *)
From Coq Require Import List ZArith NArith Bool Lia.
Import ListNotations.
From PyccoloV Require Import gen.PyAst gen.Ids gen.Events model.Tree model.Erase model.RwFrag model.FragSem proofs.FragSemProofs model.FragOv.
Local Open Scope N_scope.

Section OvProofs.
Variable binop : N -> val -> val -> res val.
Variable cmpop : N -> val -> val -> res bool.
Variable unop : N -> val -> res val.
Variable truth : val -> bool.
Variable cval : scalar -> val.
Variable is_and : N -> bool.
Variable hv : event -> N -> val -> option val.
Variable hd : event -> N -> option val.
Variable c : rcfg.

Notation eval_o := (eval_o binop cmpop unop truth cval is_and hv hd).
Notation ref_o := (ref_o binop cmpop unop truth cval is_and hv hd c).
Notation ovc := (ovc hv c).
Notation ovc_res := (ovc_res hv c).
Notation odc := (odc hd c).
Notation fl := (filter_log c).

Lemma ovc_res_sub e n q : ovc_res e n q = if sub c e then ov_res hv e n q else q.
Proof. destruct q; cbn; unfold FragOv.ovc; destruct (sub c e); reflexivity. Qed.

Lemma eval_wrap_o e n t r : eval_o (wrap c e n t) r = let '(q, l) := eval_o t r in (ovc_res e n q, l ++ if sub c e then emitted e n q else []).
Proof.
  unfold wrap. destruct (sub c e) eqn:E; cbn [FragOv.eval_o]; destruct (eval_o t r) as [q l]; rewrite ovc_res_sub, E; [reflexivity|rewrite app_nil_r; reflexivity].
Qed.

Definition chain_eo (r : env) := fix chain_e (vprev : val) (ops : list N) (comps : list texpr) {struct comps} : res val * list entry :=
  match ops, comps with
  | o :: ops', x :: comps' =>
      match eval_o x r with
      | (Ok vc, lc) =>
          match cmpop o vprev vc with
          | Ok true => match comps' with [] => (Ok (VBool true), lc) | _ => let '(q, lq) := chain_e vc ops' comps' in (q, lc ++ lq) end
          | Ok false => (Ok (VBool false), lc)
          | Err e => (Err e, lc)
          end
      | (Err e, lc) => (Err e, lc)
      end
  | _, _ => (Ok (VBool true), [])
  end.
Definition chain_ro (r : env) := fix chain_r (vprev : val) (ops : list N) (comps : list texpr) {struct comps} : res val * list entry :=
  match ops, comps with
  | o :: ops', x :: comps' =>
      match ref_o x r with
      | (Ok vc, lc) =>
          let lc' := lc ++ [(E_compare_arg, xid x, Some vc)] in
          let vc' := ovc E_compare_arg (xid x) vc in
          match cmpop o vprev vc' with
          | Ok true => match comps' with [] => (Ok (VBool true), lc') | _ => let '(q, lq) := chain_r vc' ops' comps' in (q, lc' ++ lq) end
          | Ok false => (Ok (VBool false), lc')
          | Err e => (Err e, lc')
          end
      | (Err e, lc) => (Err e, lc)
      end
  | _, _ => (Ok (VBool true), [])
  end.

Lemma eval_o_XCmp n l ops comps r :
  eval_o (XCmp n l ops comps) r =
  match eval_o l r with (Ok vl, ll) => let '(q, lq) := chain_eo r vl ops comps in (q, ll ++ lq) | (Err e, ll) => (Err e, ll) end.
Proof. reflexivity. Qed.
Lemma ref_o_XCmp n l ops comps r :
  ref_o (XCmp n l ops comps) r =
  match ref_o l r with
  | (Ok vl, ll) =>
      let vl' := ovc E_left_compare_arg (xid l) vl in
      let '(q, lq) :=
        match odc E_before_compare n, comps with
        | Some y, x :: _ =>
            match ref_o x r with
            | (Ok vc, lc) => (Ok y, lc ++ [(E_compare_arg, xid x, Some vc)])
            | (Err e, lc) => (Err e, lc)
            end
        | _, _ => chain_ro r vl' ops comps
        end in
      (ovc_res E_after_compare n q, (E_before_compare, n, None) :: ll ++ [(E_left_compare_arg, xid l, Some vl)] ++ lq ++ emitted E_after_compare n q)
  | (Err e, ll) => (Err e, (E_before_compare, n, None) :: ll)
  end.
Proof. reflexivity. Qed.

Lemma chain_eo_cons r vprev o ops x comps :
  chain_eo r vprev (o :: ops) (x :: comps) =
  match eval_o x r with
  | (Ok vc, lc) =>
      match cmpop o vprev vc with
      | Ok true => match comps with [] => (Ok (VBool true), lc) | _ => let '(q, lq) := chain_eo r vc ops comps in (q, lc ++ lq) end
      | Ok false => (Ok (VBool false), lc)
      | Err e => (Err e, lc)
      end
  | (Err e, lc) => (Err e, lc)
  end.
Proof. reflexivity. Qed.
Lemma chain_ro_cons r vprev o ops x comps :
  chain_ro r vprev (o :: ops) (x :: comps) =
  match ref_o x r with
  | (Ok vc, lc) =>
      let lc' := lc ++ [(E_compare_arg, xid x, Some vc)] in
      let vc' := ovc E_compare_arg (xid x) vc in
      match cmpop o vprev vc' with
      | Ok true => match comps with [] => (Ok (VBool true), lc') | _ => let '(q, lq) := chain_ro r vc' ops comps in (q, lc' ++ lq) end
      | Ok false => (Ok (VBool false), lc')
      | Err e => (Err e, lc')
      end
  | (Err e, lc) => (Err e, lc)
  end.
Proof. reflexivity. Qed.

(* the deferred comparison: both operands of the first comparison are evaluated; then either the handler's constant or the chain *)
Lemma eval_o_XDefCmp n o ops l c0 crest r :
  eval_o (XDefCmp n (o :: ops) l c0 crest) r =
  match eval_o l r with
  | (Ok vl, ll) =>
      match hd E_before_compare n with
      | Some y => match eval_o c0 r with
                  | (Ok v0, l0) => (Ok y, (E_before_compare, n, None) :: ll ++ l0)
                  | (Err e, l0) => (Err e, (E_before_compare, n, None) :: ll ++ l0)
                  end
      | None => let '(q, lq) := chain_eo r vl (o :: ops) (c0 :: crest) in (q, (E_before_compare, n, None) :: ll ++ lq)
      end
  | (Err e, ll) => (Err e, (E_before_compare, n, None) :: ll)
  end.
Proof.
  cbn [FragOv.eval_o]. fold (chain_eo r).
  destruct (eval_o l r) as [[vl|e] ll]; [|reflexivity].
  rewrite chain_eo_cons.
  destruct (eval_o c0 r) as [[v0|e] l0]; [|destruct (hd E_before_compare n); reflexivity].
  destruct (hd E_before_compare n); [reflexivity|].
  destruct (cmpop o vl v0) as [[|]|e]; try reflexivity.
  destruct crest as [|c1 crest]; [reflexivity|].
  destruct (chain_eo r v0 ops (c1 :: crest)) as [q lq]. reflexivity.
Qed.

Definition bool_eo (r : env) (op : N) := fix go (u : list texpr) {struct u} : res val * list entry :=
  match u with
  | [] => (Ok VNone, [])
  | [x] => eval_o x r
  | x :: u' =>
      match eval_o x r with
      | (Ok v, l) => if (if is_and op then negb (truth v) else truth v) then (Ok v, l) else let '(q, lq) := go u' in (q, l ++ lq)
      | (Err e, l) => (Err e, l)
      end
  end.
Definition bool_ro (r : env) (op : N) := fix go (u : list texpr) {struct u} : res val * list entry :=
  match u with
  | [] => (Ok VNone, [])
  | [x] => ref_o x r
  | x :: u' =>
      match ref_o x r with
      | (Ok v, l) => if (if is_and op then negb (truth v) else truth v) then (Ok v, l) else let '(q, lq) := go u' in (q, l ++ lq)
      | (Err e, l) => (Err e, l)
      end
  end.
Lemma eval_o_XBool n op es r : eval_o (XBool n op es) r = bool_eo r op es.
Proof. reflexivity. Qed.
Lemma ref_o_XBool n op es r : ref_o (XBool n op es) r = bool_ro r op es.
Proof. reflexivity. Qed.

Ltac flags := repeat match goal with |- context [sub c ?e] => destruct (sub c e) end.
Ltac norm := cbn [app emitted fst snd]; repeat first [rewrite fl_app | rewrite fl_cons | rewrite fl_nil | rewrite fl_emitted | rewrite fl_idem | rewrite fl_if]; rewrite ?app_nil_r; cbn [app emitted fst snd].
Ltac fin := norm; unfold FragOv.ovc_res, FragOv.ovc, FragOv.odc; flags; cbn [app emitted fst snd]; rewrite ?app_nil_r, <- ?app_assoc; cbn [app]; reflexivity.

Definition expr_ok (t : texpr) : Prop := src_e t = true -> forall r, eval_o (ie c t) r = (fst (ref_o t r), fl (snd (ref_o t r))).

Lemma chain_ie_o r comps : Forall expr_ok comps -> forallb src_e comps = true -> forall vprev ops,
  chain_eo r vprev ops (map (fun x => wrap c E_compare_arg (xid x) (ie c x)) comps) =
  (fst (chain_ro r vprev ops comps), fl (snd (chain_ro r vprev ops comps))).
Proof.
  induction 1 as [|x comps Hx _ IH]; intros Hs vprev ops.
  - destruct ops; reflexivity.
  - cbn [forallb] in Hs. apply andb_true_iff in Hs as [Hsx Hs]. destruct ops as [|o ops]; [reflexivity|].
    cbn [map]. rewrite chain_eo_cons, chain_ro_cons, eval_wrap_o, (Hx Hsx).
    destruct (ref_o x r) as [[vc|e] lc]; cbn [fst snd]; [|fin].
    cbv zeta. change (FragOv.ovc_res hv c E_compare_arg (xid x) (Ok vc)) with (Ok (ovc E_compare_arg (xid x) vc)). cbv beta iota.
    destruct (cmpop o vprev (ovc E_compare_arg (xid x) vc)) as [[|]|e]; try fin.
    destruct comps as [|y comps]; [fin|].
    cbn [map] in *. rewrite (IH Hs). destruct (chain_ro r (ovc E_compare_arg (xid x) vc) ops (y :: comps)) as [q lq]. fin.
Qed.

Lemma bool_ie_o r op es : Forall expr_ok es -> forallb src_e es = true ->
  bool_eo r op (map (ie c) es) = (fst (bool_ro r op es), fl (snd (bool_ro r op es))).
Proof.
  induction 1 as [|x es Hx _ IH]; intros Hs; [reflexivity|].
  cbn [forallb] in Hs. apply andb_true_iff in Hs as [Hsx Hs].
  destruct es as [|y es].
  - cbn [map bool_eo bool_ro]. apply (Hx Hsx).
  - specialize (IH Hs). cbn [map] in *.
    change (bool_eo r op (ie c x :: ie c y :: map (ie c) es)) with
      (match eval_o (ie c x) r with
       | (Ok v, l) => if (if is_and op then negb (truth v) else truth v) then (Ok v, l) else let '(q, lq) := bool_eo r op (ie c y :: map (ie c) es) in (q, l ++ lq)
       | (Err e, l) => (Err e, l)
       end).
    change (bool_ro r op (x :: y :: es)) with
      (match ref_o x r with
       | (Ok v, l) => if (if is_and op then negb (truth v) else truth v) then (Ok v, l) else let '(q, lq) := bool_ro r op (y :: es) in (q, l ++ lq)
       | (Err e, l) => (Err e, l)
       end).
    rewrite (Hx Hsx). destruct (ref_o x r) as [[v|e] l]; cbn [fst snd]; [|reflexivity].
    destruct (if is_and op then negb (truth v) else truth v); [reflexivity|].
    rewrite IH. destruct (bool_ro r op (y :: es)) as [q lq]. fin.
Qed.

Lemma ovc_res_ok e n x : ovc_res e n (Ok x) = Ok (ovc e n x).
Proof. reflexivity. Qed.
Lemma ovc_res_err e n z : ovc_res e n (Err z) = Err z.
Proof. reflexivity. Qed.
Lemma odc_sub e n : odc e n = if sub c e then hd e n else None.
Proof. reflexivity. Qed.

Theorem eval_ie_o : forall t, expr_ok t.
Proof.
  induction t using texpr_ind'; intros Hs r; try discriminate Hs.
  - (* Name *)
    cbn [ie]. rewrite eval_wrap_o. cbn [FragOv.eval_o FragOv.ref_o]. destruct (r x) as [v|]; rewrite ?ovc_res_ok, ?ovc_res_err; cbn [fst snd]; f_equal; fin.
  - (* Constant *)
    cbn [ie FragOv.ref_o]. destruct (const_ev c0) as [ev|]; [rewrite eval_wrap_o|]; cbn [FragOv.eval_o]; rewrite ?ovc_res_ok; cbn [fst snd]; f_equal; fin.
  - (* BinOp *)
    cbn [src_e] in Hs. apply andb_true_iff in Hs as [H1 H2].
    cbn [ie]. rewrite eval_wrap_o.
    assert (Hcore : eval_o (if sub c E_before_binop
                           then XDefBin n op (wrap c E_left_binop_arg (xid t1) (ie c t1)) (wrap c E_right_binop_arg (xid t2) (ie c t2))
                           else XBin n (wrap c E_left_binop_arg (xid t1) (ie c t1)) op (wrap c E_right_binop_arg (xid t2) (ie c t2))) r =
                   match eval_o (wrap c E_left_binop_arg (xid t1) (ie c t1)) r with
                   | (Ok vl, ll) =>
                       match eval_o (wrap c E_right_binop_arg (xid t2) (ie c t2)) r with
                       | (Ok vr, lr) => (match odc E_before_binop n with Some y => Ok y | None => binop op vl vr end,
                                         (if sub c E_before_binop then [(E_before_binop, n, None)] else []) ++ ll ++ lr)
                       | (Err e, lr) => (Err e, (if sub c E_before_binop then [(E_before_binop, n, None)] else []) ++ ll ++ lr)
                       end
                   | (Err e, ll) => (Err e, (if sub c E_before_binop then [(E_before_binop, n, None)] else []) ++ ll)
                   end).
    { rewrite odc_sub. destruct (sub c E_before_binop); cbn [FragOv.eval_o];
        destruct (eval_o (wrap c E_left_binop_arg (xid t1) (ie c t1)) r) as [[vl|e] ll]; try reflexivity;
        destruct (eval_o (wrap c E_right_binop_arg (xid t2) (ie c t2)) r) as [[vr|e] lr]; reflexivity. }
    rewrite Hcore. clear Hcore. rewrite !eval_wrap_o, (IHt1 H1), (IHt2 H2). cbn [FragOv.ref_o].
    destruct (ref_o t1 r) as [[vl|e] ll]; cbn [fst snd]; rewrite ?ovc_res_ok, ?ovc_res_err; [|cbn [fst snd]; f_equal; fin].
    destruct (ref_o t2 r) as [[vr|e] lr]; cbn [fst snd]; rewrite ?ovc_res_ok, ?ovc_res_err; [|cbn [fst snd]; f_equal; fin].
    cbv zeta.
    destruct (match odc E_before_binop n with Some y => Ok y | None => binop op (ovc E_left_binop_arg (xid t1) vl) (ovc E_right_binop_arg (xid t2) vr) end) as [x|z];
      cbn [fst snd]; f_equal; fin.
  - (* Compare *)
    cbn [src_e] in Hs. apply andb_true_iff in Hs as [Hs Hne]. apply andb_true_iff in Hs as [Hs Hlen]. apply andb_true_iff in Hs as [H1 Hc].
    apply Nat.eqb_eq in Hlen.
    destruct comps as [|c0 crest]; [cbn in Hne; discriminate Hne|].
    destruct ops as [|o ops]; [discriminate Hlen|].
    cbn [ie map]. rewrite eval_wrap_o.
    set (f := fun x => wrap c E_compare_arg (xid x) (ie c x)).
    set (l' := wrap c E_left_compare_arg (xid t) (ie c t)).
    change (wrap c E_compare_arg (xid c0) (ie c c0)) with (f c0).
    assert (Hcore : eval_o (if sub c E_before_compare then XDefCmp n (o :: ops) l' (f c0) (map f crest) else XCmp n l' (o :: ops) (f c0 :: map f crest)) r =
                   match eval_o l' r with
                   | (Ok vl, ll) =>
                       match odc E_before_compare n with
                       | Some y => match eval_o (f c0) r with
                                   | (Ok v0, l0) => (Ok y, (if sub c E_before_compare then [(E_before_compare, n, None)] else []) ++ ll ++ l0)
                                   | (Err e, l0) => (Err e, (if sub c E_before_compare then [(E_before_compare, n, None)] else []) ++ ll ++ l0)
                                   end
                       | None => let '(q, lq) := chain_eo r vl (o :: ops) (f c0 :: map f crest) in
                                 (q, (if sub c E_before_compare then [(E_before_compare, n, None)] else []) ++ ll ++ lq)
                       end
                   | (Err e, ll) => (Err e, (if sub c E_before_compare then [(E_before_compare, n, None)] else []) ++ ll)
                   end).
    { rewrite odc_sub. destruct (sub c E_before_compare).
      - rewrite eval_o_XDefCmp. destruct (eval_o l' r) as [[vl|e] ll]; [|reflexivity]. destruct (hd E_before_compare n); [destruct (eval_o (f c0) r) as [[v0|e] l0]; reflexivity|].
        destruct (chain_eo r vl (o :: ops) (f c0 :: map f crest)); reflexivity.
      - rewrite eval_o_XCmp. destruct (eval_o l' r) as [[vl|e] ll]; [|reflexivity]. destruct (chain_eo r vl (o :: ops) (f c0 :: map f crest)); reflexivity. }
    rewrite Hcore. clear Hcore. subst l'. rewrite eval_wrap_o, (IHt H1), ref_o_XCmp.
    destruct (ref_o t r) as [[vl|e] ll]; cbn [fst snd]; rewrite ?ovc_res_ok, ?ovc_res_err; [|cbn [fst snd]; f_equal; fin].
    cbv zeta.
    destruct (odc E_before_compare n) as [y|] eqn:Eo.
    + (* the handler replaced the comparison by a constant: the first comparator is still evaluated *)
      inversion H as [|? ? Hx0 _]; subst. subst f. cbv beta. cbn [forallb] in Hc. apply andb_true_iff in Hc as [Hc0 _]. rewrite eval_wrap_o, (Hx0 Hc0).
      destruct (ref_o c0 r) as [[vc|e] lc]; cbn [fst snd]; rewrite ?ovc_res_ok, ?ovc_res_err; cbn [fst snd]; f_equal; fin.
    + change (f c0 :: map f crest) with (map f (c0 :: crest)). subst f.
      rewrite (chain_ie_o r (c0 :: crest) H Hc).
      destruct (chain_ro r (ovc E_left_compare_arg (xid t) vl) (o :: ops) (c0 :: crest)) as [q lq]. cbn [fst snd]. destruct q; rewrite ?ovc_res_ok, ?ovc_res_err; cbn [fst snd]; f_equal; fin.
  - (* UnaryOp *)
    cbn [src_e] in Hs. cbn [ie FragOv.eval_o FragOv.ref_o]. rewrite (IHt Hs). destruct (ref_o t r) as [[v|e] l]; reflexivity.
  - (* BoolOp *)
    cbn [src_e] in Hs. cbn [ie]. rewrite eval_o_XBool, ref_o_XBool. apply bool_ie_o; assumption.
  - (* IfExp *)
    cbn [src_e] in Hs. apply andb_true_iff in Hs as [Hs H3]. apply andb_true_iff in Hs as [H1 H2].
    cbn [ie FragOv.eval_o FragOv.ref_o]. rewrite (IHt1 H1). destruct (ref_o t1 r) as [[vc|e] lc]; cbn [fst snd]; [|reflexivity].
    destruct (truth vc); [rewrite (IHt2 H2); destruct (ref_o t2 r)|rewrite (IHt3 H3); destruct (ref_o t3 r)]; fin.
Qed.

(* ================================================================ statements *)
Notation exec_os := (exec_os binop cmpop unop truth cval is_and hv hd).
Notation exec_ol := (exec_ol binop cmpop unop truth cval is_and hv hd).
Notation ref_os := (ref_os binop cmpop unop truth cval is_and hv hd c).
Notation ref_ol := (ref_ol binop cmpop unop truth cval is_and hv hd c).
Notation ref_omodule := (ref_omodule binop cmpop unop truth cval is_and hv hd c).

Lemma exec_ol_cons x u r sv : exec_ol (x :: u) r sv = seq (exec_os x r sv) (exec_ol u).
Proof. reflexivity. Qed.
Lemma exec_os_SIf n t b o r sv :
  exec_os (SIf n t b o) r sv =
  let '(q, l) := eval_o t r in
  match q with
  | Ok vt => let a := exec_ol (if truth vt then b else o) r sv in
             {| s_exc := s_exc a; s_env := s_env a; s_saved := s_saved a; s_log := l ++ s_log a |}
  | Err e => {| s_exc := Some e; s_env := r; s_saved := sv; s_log := l |}
  end.
Proof. reflexivity. Qed.
Lemma exec_os_SBefore n tb own r sv :
  exec_os (SBefore n tb own) r sv =
  let a := exec_ol own r sv in {| s_exc := s_exc a; s_env := s_env a; s_saved := s_saved a; s_log := (E_before_stmt, n, Some VNone) :: s_log a |}.
Proof. reflexivity. Qed.
Lemma ref_ol_cons m x u r : ref_ol m (x :: u) r =
  let a := ref_os m x r in
  match r_exc a with
  | Some _ => a
  | None => let b := ref_ol m u (r_env a) in {| r_exc := r_exc b; r_env := r_env b; r_log := r_log a ++ r_log b |}
  end.
Proof. reflexivity. Qed.


Definition body_oo (s : tstmt) (r : env) : option exc * env * list entry * val :=
  match s with
  | SExpr n v => let '(q, l) := ref_o v r in
                 (exc_of q, r, l ++ emitted E_after_expr_stmt n q, val_of (ovc_res E_after_expr_stmt n q))
  | SAssign n xs v =>
      match odc E_before_assign_rhs (xid v) with
      | Some y =>
          let x := ovc E_after_assign_rhs (xid v) y in
          (None, fold_left (fun r' z => upd r' z x) xs r, [(E_before_assign_rhs, xid v, None); (E_after_assign_rhs, xid v, Some y)], VNone)
      | None =>
          let '(q, l) := ref_o v r in
          (exc_of q, match ovc_res E_after_assign_rhs (xid v) q with Ok x => fold_left (fun r' y => upd r' y x) xs r | Err _ => r end,
           (E_before_assign_rhs, xid v, None) :: l ++ emitted E_after_assign_rhs (xid v) q, VNone)
      end
  | SPass _ => (None, r, [], VNone)
  | SIf n t b o =>
      let '(q, l) := ref_o t r in
      match q with
      | Ok vt => let a := ref_ol false (if truth (ovc E_after_if_test n vt) then b else o) r in (r_exc a, r_env a, l ++ (E_after_if_test, n, Some vt) :: r_log a, VNone)
      | Err e => (Some e, r, l, VNone)
      end
  | _ => (Some ETypeError, r, [], VNone)
  end.
Lemma ref_os_unfold m s r : ref_os m s r =
  let '(x, r', l, v) := body_oo s r in
  let after_value := if m then v else VNone in
  {| r_exc := x; r_env := r';
     r_log := (E_before_stmt, sid s, Some VNone) :: l ++
              match x with
              | Some _ => []
              | None => (E_after_stmt, sid s, Some after_value) :: (if m then [(E_after_module_stmt, sid s, Some after_value)] else [])
              end |}.
Proof.
  destruct s; reflexivity.
Qed.

Definition simo (a : sres) (b : rres) : Prop :=
  s_exc a = r_exc b /\ s_env a = r_env b /\ filter_log c (s_log a) = filter_log c (r_log b).


Lemma exec_ol_app u w : forall r sv, exec_ol (u ++ w) r sv = seq (exec_ol u r sv) (exec_ol w).
Proof.
  induction u as [|x u IH]; intros r sv.
  - cbn [app]. unfold seq. cbn. destruct (exec_ol w r sv); reflexivity.
  - cbn [app]. rewrite !exec_ol_cons. unfold seq at 1 3. destruct (s_exc (exec_os x r sv)) eqn:E.
    + unfold seq. rewrite E. reflexivity.
    + rewrite IH. unfold seq. cbn [s_exc s_env s_saved s_log].
      destruct (s_exc (exec_ol u (s_env (exec_os x r sv)) (s_saved (exec_os x r sv)))) eqn:E2; cbn [s_exc s_env s_saved s_log]; rewrite ?E2; [reflexivity|].
      rewrite app_assoc. reflexivity.
Qed.

Lemma exec_ol_single x r sv : exec_ol [x] r sv = exec_os x r sv.
Proof. rewrite exec_ol_cons. unfold seq. cbn. destruct (exec_os x r sv) as [[e|] r' sv' l]; cbn; rewrite ?app_nil_r; reflexivity. Qed.

Lemma exec_oSEmit_some e n v r sv : (forall k, v <> XLoadSaved k) ->
  exec_os (SEmit e n (Some v)) r sv =
  let '(q, l) := eval_o v r in
  match q with
  | Ok x => {| s_exc := None; s_env := r; s_saved := (if event_eqb e E_after_stmt then x else sv); s_log := l ++ [(e, n, Some x)] |}
  | Err x => {| s_exc := Some x; s_env := r; s_saved := sv; s_log := l |}
  end.
Proof. intros H. destruct v; try reflexivity. exfalso. exact (H n0 eq_refl). Qed.


(* a list of source statements: the property we are proving, as a predicate for the induction *)
Definition stmt_oko (s : tstmt) : Prop := src_s s = true -> forall m r sv, simo (exec_ol (is_ c m s) r sv) (ref_os m s r).

Lemma list_oko u : Forall stmt_oko u -> forallb src_s u = true -> forall m r sv, simo (exec_ol (flat_map (is_ c m) u) r sv) (ref_ol m u r).
Proof.
  induction 1 as [|x u Hx _ IH]; intros Hs m r sv.
  - repeat split.
  - cbn [forallb] in Hs. apply andb_true_iff in Hs as [Hsx Hs].
    cbn [flat_map]. rewrite exec_ol_app, ref_ol_cons. cbv zeta.
    destruct (Hx Hsx m r sv) as (E1 & E2 & E3). unfold seq.
    rewrite E1. destruct (r_exc (ref_os m x r)) eqn:Ex.
    + exact (Hx Hsx m r sv).
    + destruct (IH Hs m (s_env (exec_ol (is_ c m x) r sv)) (s_saved (exec_ol (is_ c m x) r sv))) as (F1 & F2 & F3).
      rewrite E2 in F1, F2, F3. unfold simo. cbn [s_exc s_env s_log r_exc r_env r_log]. rewrite E2. split; [exact F1|split; [exact F2|]].
      rewrite !fl_app, E3, F3. reflexivity.
Qed.

Definition main_oko (s : tstmt) : Prop := forall r sv,
  let A := exec_os (main_of c s) r sv in
  let '(x, r', l, v) := body_oo s r in
  s_exc A = x /\ s_env A = r' /\ filter_log c (s_log A) = filter_log c l.



Lemma main_oko_expr n v : src_e v = true -> main_oko (SExpr n v).
Proof.
  intros Hs r sv. cbn [main_of body_oo FragOv.exec_os]. rewrite eval_wrap_o, (eval_ie_o v Hs).
  destruct (ref_o v r) as [[x|e] l]; cbn [fst snd exc_of val_of s_exc s_env s_log]; repeat split; fin.
Qed.

Lemma main_oko_assign n xs v : src_e v = true -> main_oko (SAssign n xs v).
Proof.
  intros Hs r sv. cbn [main_of body_oo FragOv.exec_os]. rewrite eval_wrap_o, odc_sub.
  destruct (sub c E_before_assign_rhs) eqn:Eb.
  - cbn [FragOv.eval_o]. destruct (hd E_before_assign_rhs (xid v)) as [y|].
    + rewrite ovc_res_ok. cbn [s_exc s_env s_log]. repeat split. norm. rewrite ?Eb. fin.
    + rewrite (eval_ie_o v Hs). destruct (ref_o v r) as [[x|e] l]; cbn [fst snd]; rewrite ?ovc_res_ok, ?ovc_res_err; cbn [exc_of s_exc s_env s_log];
        repeat split; norm; rewrite ?Eb; fin.
  - rewrite (eval_ie_o v Hs). destruct (ref_o v r) as [[x|e] l]; cbn [fst snd]; rewrite ?ovc_res_ok, ?ovc_res_err; cbn [exc_of s_exc s_env s_log];
      repeat split; norm; rewrite ?Eb; fin.
Qed.

Lemma main_oko_pass n : main_oko (SPass n).
Proof. intros r sv. cbn. repeat split. Qed.

Lemma main_oko_if n t b o : src_e t = true -> forallb src_s b = true -> forallb src_s o = true ->
  Forall stmt_oko b -> Forall stmt_oko o -> main_oko (SIf n t b o).
Proof.
  intros Ht Hb Ho Fb Fo r sv. cbn [main_of body_oo]. rewrite exec_os_SIf, eval_wrap_o, (eval_ie_o t Ht).
  destruct (ref_o t r) as [[vt|e] l]; cbn [fst snd emitted]; rewrite ?ovc_res_ok, ?ovc_res_err; cbn [s_exc s_env s_log]; [|repeat split; fin].
  set (vt' := ovc E_after_if_test n vt).
  assert (Hl : simo (exec_ol (if truth vt' then flat_map (is_ c false) b else flat_map (is_ c false) o) r sv) (ref_ol false (if truth vt' then b else o) r))
    by (destruct (truth vt'); [apply (list_oko b Fb Hb)|apply (list_oko o Fo Ho)]).
  destruct Hl as (E1 & E2 & E3). cbn [s_exc s_env s_log]. repeat split; try assumption.
  norm. rewrite E3. flags; cbn [app]; rewrite ?app_nil_r, <- ?app_assoc; reflexivity.
Qed.


(* the statement's own part: itself and, when wanted, the after_stmt emission (which also saves the value) *)
Lemma own_oko s m : src_s s = true -> main_oko s -> forall r sv,
  let O := exec_ol (own_of c m s) r sv in
  let '(x, r', l, v) := body_oo s r in
  let av := if m then v else VNone in
  s_exc O = x /\ s_env O = r' /\
  filter_log c (s_log O) = filter_log c (l ++ match x with None => [(E_after_stmt, sid s, Some av)] | Some _ => [] end) /\
  (wants c m = true -> x = None -> s_saved O = av).
Proof.
  intros Hs HM r sv. unfold own_of, main_and_after.
  destruct (wants c m) eqn:W.
  - destruct (is_expr s && m) eqn:EM.
    + (* module-level expression statement: the after_stmt emission carries the value *)
      apply andb_true_iff in EM as [Ee Em]. subst m. destruct s; try discriminate Ee. cbn [src_s] in Hs.
      cbn [mvalue main_of sid body_oo]. rewrite exec_ol_single, (exec_oSEmit_some _ _ _ _ _ (ie_not_load c v Hs _ _)).
      rewrite eval_wrap_o, (eval_ie_o v Hs).
      destruct (ref_o v r) as [[x|e] l]; cbn [fst snd]; rewrite ?ovc_res_ok, ?ovc_res_err; cbn [exc_of val_of emitted s_exc s_env s_log s_saved].
      * replace (event_eqb E_after_stmt E_after_stmt) with true by reflexivity. repeat split; fin.
      * repeat split; try fin. intros _ H; discriminate H.
    + (* the statement, then a plain after_stmt emission *)
      specialize (HM r sv). cbv zeta in HM.
      destruct (body_oo s r) as [[[x r'] l] v] eqn:Eb. destruct HM as (A1 & A2 & A3).
      assert (Hav : (if m then v else VNone) = VNone).
      { destruct m; [|reflexivity]. rewrite andb_true_r in EM. destruct s; try discriminate EM; cbn [body_oo] in Eb.
        - destruct (odc E_before_assign_rhs (xid v0)); [|destruct (ref_o v0 r) as [q l0]]; injection Eb as _ _ _ <-; reflexivity.
        - injection Eb as _ _ _ <-. reflexivity.
        - destruct (ref_o t r) as [[vt|e] l0]; injection Eb as _ _ _ <-; reflexivity.
        - injection Eb as _ _ _ <-. reflexivity.
        - injection Eb as _ _ _ <-. reflexivity. }
      rewrite Hav. rewrite exec_ol_cons. unfold seq. rewrite A1. destruct x as [e|].
      * repeat split; try assumption. rewrite A3, app_nil_r. reflexivity. intros _ H; discriminate H.
      * rewrite exec_ol_single. cbn [FragOv.exec_os s_exc s_env s_saved s_log].
        replace (event_eqb E_after_stmt E_after_stmt) with true by reflexivity.
        repeat split; try assumption. rewrite !fl_app, A3. reflexivity.
  - specialize (HM r sv). cbv zeta in HM. destruct (body_oo s r) as [[[x r'] l] v] eqn:Eb. destruct HM as (A1 & A2 & A3).
    destruct (wants_false c m W) as [Wa _]. rewrite exec_ol_single.
    repeat split; try assumption; [|intros H; discriminate H].
    rewrite fl_app, A3. destruct x; [rewrite fl_nil|rewrite fl_single, Wa]; rewrite app_nil_r; reflexivity.
Qed.

Lemma assemble_o s : src_s s = true -> main_oko s -> stmt_oko s.
Proof.
  intros Hs HM _ m r sv. rewrite (is_unfold c), ref_os_unfold. cbv zeta.
  pose proof (own_oko s m Hs HM r sv) as HO. cbv zeta in HO.
  destruct (body_oo s r) as [[[x r'] l] v] eqn:Eb. destruct HO as (O1 & O2 & O3 & O4).
  set (av := if m then v else VNone) in *.
  set (own := own_of c m s) in *.
  (* the before_stmt conditional *)
  set (expanded := if sub c E_before_stmt then [SBefore (sid s) _ own] else own).
  assert (HE : s_exc (exec_ol expanded r sv) = x /\ s_env (exec_ol expanded r sv) = r' /\
               s_saved (exec_ol expanded r sv) = s_saved (exec_ol own r sv) /\
               filter_log c (s_log (exec_ol expanded r sv)) =
               filter_log c ((E_before_stmt, sid s, Some VNone) :: l ++ match x with None => [(E_after_stmt, sid s, Some av)] | Some _ => [] end)).
  { subst expanded. destruct (sub c E_before_stmt) eqn:Bf.
    - rewrite exec_ol_single, exec_os_SBefore. cbn [s_exc s_env s_saved s_log]. repeat split; try assumption.
      rewrite !fl_cons, O3. reflexivity.
    - repeat split; try assumption. rewrite fl_cons, Bf. exact O3. }
  destruct HE as (E1 & E2 & E3 & E4).
  destruct (m && sub c E_after_module_stmt) eqn:Am.
  - apply andb_true_iff in Am as [Em Ea]. subst m.
    assert (W : wants c true = true) by (unfold wants; rewrite Ea, orb_true_r; reflexivity).
    rewrite exec_ol_app. unfold seq. rewrite E1. destruct x as [e|].
    + unfold simo. cbn [r_exc r_env r_log]. repeat split; try assumption; try (rewrite E4, ?app_nil_r; reflexivity).
    + rewrite exec_ol_single. cbn [FragOv.exec_os s_exc s_env s_saved s_log]. unfold simo. cbn [s_exc s_env s_log r_exc r_env r_log].
      repeat split; try assumption. rewrite E3, (O4 W eq_refl).
      rewrite fl_app, E4. rewrite <- fl_app. f_equal. cbn [app]. rewrite <- app_assoc. reflexivity.
  - unfold simo. cbn [r_exc r_env r_log]. repeat split; try assumption. rewrite E4.
    destruct x as [e|]; [reflexivity|].
    rewrite !fl_cons, !fl_app, !fl_cons. f_equal. f_equal. f_equal.
    destruct m; [|reflexivity]. cbn [andb] in Am. rewrite fl_single, Am. reflexivity.
Qed.

Theorem stmt_sim_o : forall s, stmt_oko s.
Proof.
  induction s using tstmt_ind'; intros Hs; try discriminate Hs; cbn [src_s] in Hs.
  - apply assemble_o; [exact Hs|apply main_oko_expr; exact Hs|exact Hs].
  - apply assemble_o; [exact Hs|apply main_oko_assign; exact Hs|exact Hs].
  - apply assemble_o; [reflexivity|apply main_oko_pass|reflexivity].
  - pose proof Hs as Hs'. apply andb_true_iff in Hs as [Hs Ho]. apply andb_true_iff in Hs as [Ht Hb].
    apply assemble_o; [exact Hs'|apply main_oko_if; assumption|exact Hs'].
Qed.

(* ---- modules *)
Lemma exec_odoc d u r sv : is_doc_t d = true ->
  s_exc (exec_ol (d :: u) r sv) = s_exc (exec_ol u r sv) /\ s_env (exec_ol (d :: u) r sv) = s_env (exec_ol u r sv) /\
  s_log (exec_ol (d :: u) r sv) = s_log (exec_ol u r sv).
Proof.
  destruct d as [n v| | | | |]; try discriminate. destruct v as [|m sc| | | | | | | | | | |]; try discriminate.
  destruct sc; try discriminate. intros _. rewrite exec_ol_cons. unfold seq. cbn [FragOv.exec_os FragOv.eval_o s_exc s_env s_saved s_log app].
  repeat split; reflexivity.
Qed.
Theorem module_sim_o body : forallb src_s body = true -> forall r sv,
  simo (exec_ol (instr_module c body) r sv) (ref_omodule body r).
Proof.
  intros Hs0 r sv. unfold instr_module, FragOv.ref_omodule.
  assert (Hd : forall u, simo (exec_ol u r sv) (let a := ref_ol true (trest body) r in
             {| r_exc := r_exc a; r_env := r_env a;
                r_log := (E_init_module, 0, Some VNone) :: r_log a ++ match r_exc a with None => [(E_exit_module, 0, Some VNone)] | Some _ => [] end |}) ->
            simo (exec_ol (tdoc body ++ u) r sv) (let a := ref_ol true (trest body) r in
             {| r_exc := r_exc a; r_env := r_env a;
                r_log := (E_init_module, 0, Some VNone) :: r_log a ++ match r_exc a with None => [(E_exit_module, 0, Some VNone)] | Some _ => [] end |})).
  { intros u Hu. destruct body as [|d rest]; [exact Hu|]. unfold tdoc. destruct (is_doc_t d) eqn:Ed; [|exact Hu].
    cbn [app]. destruct (exec_odoc d u r sv Ed) as (E1 & E2 & E3). destruct Hu as (M1 & M2 & M3).
    unfold simo. rewrite E1, E2, E3. repeat split; assumption. }
  apply Hd. clear Hd. pose proof (trest_src body Hs0) as Hs. generalize dependent (trest body). clear body Hs0. intros body Hs. revert r sv.
  intros r sv. unfold instr_module0.
  assert (HB : forall r sv, simo (exec_ol (flat_map (is_ c true) body) r sv) (ref_ol true body r)).
  { apply list_oko; [|exact Hs]. apply Forall_forall. intros s _. apply stmt_sim_o. }
  assert (HX : forall r sv, simo (exec_ol (flat_map (is_ c true) body ++ (if sub c E_exit_module then [SEmit E_exit_module 0 None] else [])) r sv)
                               {| r_exc := r_exc (ref_ol true body r); r_env := r_env (ref_ol true body r);
                                  r_log := r_log (ref_ol true body r) ++ match r_exc (ref_ol true body r) with None => [(E_exit_module, 0, Some VNone)] | Some _ => [] end |}).
  { intros r0 sv0. destruct (HB r0 sv0) as (B1 & B2 & B3). rewrite exec_ol_app. unfold seq. rewrite B1.
    destruct (r_exc (ref_ol true body r0)) as [e|] eqn:Ex.
    - unfold simo. cbn [r_exc r_env r_log]. rewrite app_nil_r. repeat split; assumption.
    - unfold simo. cbn [s_exc s_env s_log r_exc r_env r_log].
      destruct (sub c E_exit_module) eqn:Xm; cbn [FragOv.exec_ol FragOv.exec_os s_exc s_env s_log]; repeat split; try assumption;
        rewrite !fl_app, B3, ?fl_single, ?Xm, ?fl_nil; reflexivity. }
  destruct (sub c E_init_module) eqn:Im.
  - cbn [app]. rewrite exec_ol_cons. unfold seq. cbn [FragOv.exec_os s_exc s_env s_saved s_log].
    destruct (HX r (if event_eqb E_init_module E_after_stmt then VNone else sv)) as (X1 & X2 & X3).
    unfold simo. cbn [s_exc s_env s_log r_exc r_env r_log] in *. repeat split; try assumption.
    cbn [app]. rewrite !fl_cons, X3. reflexivity.
  - cbn [app]. destruct (HX r sv) as (X1 & X2 & X3). unfold simo. cbn [r_exc r_env r_log] in *. repeat split; try assumption.
    rewrite fl_cons, Im. exact X3.
Qed.


End OvProofs.

(* the statement: for all primitive operations, handler tables (hv, hd), subscriptions, source modules and environments, the instrumented
   module ends with the exception and bindings of the override reference and delivers its stream *)
Theorem ov_module binop cmpop unop truth cval is_and hv hd c body r sv : forallb src_s body = true ->
  s_exc (exec_ol binop cmpop unop truth cval is_and hv hd (instr_module c body) r sv) = r_exc (ref_omodule binop cmpop unop truth cval is_and hv hd c body r) /\
  s_env (exec_ol binop cmpop unop truth cval is_and hv hd (instr_module c body) r sv) = r_env (ref_omodule binop cmpop unop truth cval is_and hv hd c body r) /\
  filter_log c (s_log (exec_ol binop cmpop unop truth cval is_and hv hd (instr_module c body) r sv)) =
  filter_log c (r_log (ref_omodule binop cmpop unop truth cval is_and hv hd c body r)).
Proof. intros Hs. exact (module_sim_o binop cmpop unop truth cval is_and hv hd c body Hs r sv). Qed.
