(* C19 - a decorated function is the instrumented version of the same function.
   What is proved (model/Decor.v on top of the context machine model/Ctx.v, which C06 / C07 tie to tracer.py):
   * C19_scoped: a call of a function decorated with ANY list of tracers, from ANY reachable state (also from inside other
     tracing contexts), whether the function returns or raises, leaves the tracer stack, every tracer's enabled / disabled
     flags, the emit hook, guard names, the interpreter's trace function and the import finder exactly as they were;
   * C19_not_left_active: from a state with no active context, after the call no context is active and no hook is left;
   * C19_delivery: during the call the function body's events reach exactly the tracers of the decorator's list (plus
     tracers that were already receiving function-body events), also when the body raises afterwards;
   * C19_select_first: the code object taken is the first code constant carrying the function's name.
   Results / exceptions / name / docstring / node validity / independence of several decorated functions are decided by
   ./check C19 on real module files (the rewrite of the function body itself is C01's and C02's subject). *)
From Coq Require Import List NArith Bool Arith.
Import ListNotations.
From PyccoloV Require Import model.Ctx model.Decor proofs.CtxProofs proofs.DecorProofs.

Theorem C19_scoped : forall cfg ts body s sp, Inv s -> Rel s sp -> Forall (fun t => t < ntr s) ts -> wf_items (ntr s) body ->
  let s' := snd (fst (run_items cfg (wrap ts body) s)) in core_eq s s' /\ Inv s'.
Proof. exact call_scoped. Qed.
Print Assumptions C19_scoped.

Theorem C19_not_left_active : forall cfg ts body s, Inv s -> stack s = [] -> wf_items (ntr s) (wrap ts body) ->
  let s' := snd (fst (run_items cfg (wrap ts body) s)) in
  core_eq s s' /\ Inv s' /\ stack s' = [] /\ emit_present s' = false /\ guards_live s' = false /\ thunk_owner s' = None /\ lam_owner s' = None.
Proof. intros cfg ts body. exact (restore_general cfg (wrap ts body)). Qed.
Print Assumptions C19_not_left_active.

Theorem C19_delivery : forall cfg ts raises s sp, Inv s -> Rel s sp -> Forall (fun t => t < ntr s) ts -> length sp = ntr s ->
  view_log (ntr s) (snd (run_items cfg (wrap ts (fbody raises)) s)) =
    [(KFunc, map (fun u => memb u ts || spec_fires sp u) (seq 0 (ntr s)))].
Proof. exact call_delivery. Qed.
Print Assumptions C19_delivery.

Theorem C19_select_first : forall name pre c post,
  (forall x, In (Some x) pre -> x <> name) -> c = name -> select name (pre ++ Some c :: post) = Some (length pre).
Proof. exact select_first. Qed.
Print Assumptions C19_select_first.

(* non-vacuity: three tracers, the function is decorated with [2; 0] and raises: both get the body's events, tracer 1 does
   not, and the state afterwards is the initial one *)
Definition ex_cfg (t : nat) : tcfg := {| has_sys := Nat.eqb t 0; patch_meta := true |}.
Example C19_nonvacuous :
  let s0 := init_cst 3 TfNone in
  let r := run_items ex_cfg (wrap [2; 0] (fbody true)) s0 in
  view_log 3 (snd r) = [(KFunc, [true; false; true])] /\ fst (fst r) = true /\ stack (snd (fst r)) = [] /\ cur_trace (snd (fst r)) = TfNone.
Proof. vm_compute. repeat split; reflexivity. Qed.
