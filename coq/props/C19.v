(* C19 - a decorated function is the instrumented version of the same function.
   What is proved (model/Decor.v on top of the context machine model/Ctx.v, which C06 / C07 tie to tracer.py):
   * C19_scoped: a call of a function decorated with ANY list of tracers, from ANY reachable state (also from inside other
     tracing contexts), whether the function returns or raises, leaves the tracer stack, every tracer's enabled / disabled
     flags, the emit hook, guard names, the interpreter's trace function and the import finder exactly as they were;
   * C19_not_left_active: from a state with no active context, after the call no context is active and no hook is left;
   * C19_delivery: during the call the function body's events reach exactly the tracers of the decorator's list (plus
     tracers that were already receiving function-body events), also when the body raises afterwards;
   * C19_select_first: the code object taken is the first code constant carrying the function's name;
   * C19_find_code_*: the level-by-level search of find_function_code over code-object trees (type-parameter scopes only).
   Results / exceptions / name / docstring / node validity / independence of several decorated functions are decided by
   ./check C19 on real module files (the rewrite of the function body itself is C01's and C02's subject). *)
From Coq Require Import List NArith Bool Arith.
Import ListNotations.
From PyccoloV Require Import model.Ctx model.Decor proofs.CtxProofs proofs.DecorProofs.

Theorem C19_scoped : forall cfg ts body s sp, Inv s -> Rel s sp -> Forall (fun t => t < ntr s) ts -> wf_items (ntr s) body ->
  let s' := snd (fst (run_items cfg (wrap ts body) s)) in core_eq s s' /\ Inv s'.
Proof. exact call_scoped. Qed.
Print Assumptions C19_scoped.

Theorem C19_not_left_active : forall cfg ts body s, Inv s -> stack s = [] -> wf_items (ntr s) (wrap ts body) ->
  let s' := snd (fst (run_items cfg (wrap ts body) s)) in
  core_eq s s' /\ Inv s' /\ stack s' = [] /\ emit_present s' = false /\ guards_live s' = false /\ thunk_owner s' = None /\ lam_owner s' = None.
Proof. intros cfg ts body. exact (restore_general cfg (wrap ts body)). Qed.
Print Assumptions C19_not_left_active.

Theorem C19_delivery : forall cfg ts raises s sp, Inv s -> Rel s sp -> Forall (fun t => t < ntr s) ts -> length sp = ntr s ->
  view_log (ntr s) (snd (run_items cfg (wrap ts (fbody raises)) s)) =
    [(KFunc, map (fun u => memb u ts || spec_fires sp u) (seq 0 (ntr s)))].
Proof. exact call_delivery. Qed.
Print Assumptions C19_delivery.

Theorem C19_select_first : forall name pre c post,
  (forall x, In (Some x) pre -> x <> name) -> c = name -> select name (pre ++ Some c :: post) = Some (length pre).
Proof. exact select_first. Qed.
Print Assumptions C19_select_first.

(* tracer.find_function_code (since f44fd25): over code-object trees.  What is taken carries the function's name and is reachable
   from the module code through type-parameter scopes only - never a function nested in an ordinary function (the decorated
   function's own nested function of the same name: seed C19-a); a constant of the module with the name wins, the first such;
   the code of `def f[T](...)` is found one level down, in `<generic parameters of f>` (before f44fd25: not found, nothing swapped). *)
Theorem C19_find_code_sound : forall fuel level name c, find_code fuel level name = Some c -> co_name c = name /\ greach level c.
Proof. exact find_code_sound. Qed.
Print Assumptions C19_find_code_sound.
Theorem C19_find_code_top : forall k level name c, level <> [] ->
  find (fun c => N.eqb (co_name c) name) (next_consts level) = Some c -> find_code (S k) level name = Some c.
Proof. exact find_code_top. Qed.
Print Assumptions C19_find_code_top.
Theorem C19_find_code_generic : forall k m name g c,
  find (fun c => N.eqb (co_name c) name) (co_consts m) = None -> filter co_generic (co_consts m) = [g] ->
  find (fun c => N.eqb (co_name c) name) (co_consts g) = Some c -> find_code (S (S k)) [m] name = Some c.
Proof. exact find_code_generic. Qed.
Print Assumptions C19_find_code_generic.
(* module [ f(7) [ f(7) nested ] ; <generic parameters of g> [ g(8) [ g(8) nested ] ] ]: f is the module's constant, not its nested
   namesake; g is found inside its type-parameter scope; a name that only occurs nested in an ordinary function is not found *)
Example C19_find_code_nonvacuous :
  let m := CO 0 1 false [CO 1 7 false [CO 2 7 false []; CO 3 9 false []]; CO 4 2 true [CO 5 8 false [CO 6 8 false []]]] in
  option_map co_uid (find_code 5 [m] 7) = Some 1%N /\ option_map co_uid (find_code 5 [m] 8) = Some 5%N /\ find_code 5 [m] 9 = None.
Proof. vm_compute. repeat split; reflexivity. Qed.

(* non-vacuity: three tracers, the function is decorated with [2; 0] and raises: both get the body's events, tracer 1 does
   not, and the state afterwards is the initial one *)
Definition ex_cfg (t : nat) : tcfg := {| has_sys := Nat.eqb t 0; patch_meta := true |}.
Example C19_nonvacuous :
  let s0 := init_cst 3 TfNone in
  let r := run_items ex_cfg (wrap [2; 0] (fbody true)) s0 in
  view_log 3 (snd r) = [(KFunc, [true; false; true])] /\ fst (fst r) = true /\ stack (snd (fst r)) = [] /\ cur_trace (snd (fst r)) = TfNone.
Proof. vm_compute. repeat split; reflexivity. Qed.
