(* C04 - handler results compose by one fixed rule across handlers and tracers.
   Model: model/Rt.v (emit_event._emit_event/_emit_tracer_loop + tracer._emit_event); the decision functions
   handle_normal_emit_return / handle_skipall_emit_return / make_ret are REGENERATED from the source on every run
   (gen/EmitRet.v), so these proofs are re-checked against what the code says now.  The rest of the model is tied
   by the K-rt correspondence of ./check C04.
   spec_all is the rule as the property states it (proofs/RtProofs.v, 25 lines): definition order within a tracer,
   activation order across tracers, nothing keeps, a value (falsy or not) replaces, Null -> None, Skip ends the
   tracer, SkipAll ends everything, raise = nothing; handlers that are guarded off or whose condition is false
   are not run; hard-disabled / file-filtered tracers are passed over. *)
From Coq Require Import List NArith Bool.
Import ListNotations.
From PyccoloV Require Import gen.Events gen.EmitRet model.Val model.Rt proofs.RtProofs.

(* value handed back to the program and the (tracer, handler, input value) call log equal the rule's, for every stack
   of tracers, every handler list, every outcome FUNCTION (outcomes may depend on the value seen), every initial
   value, every AST event (call/exception are system-trace events: C09) *)
Theorem C04_fold : forall ev ts v, ast_event ev = true -> tracers_plain ts -> plain v = true ->
  exists ths, emit ev true fl0 ts v =
    (TVal (make_ret ev (fst (spec_all 0 ts v []))), fl0, ths, snd (spec_all 0 ts v [])).
Proof. exact fold_refines. Qed.
Print Assumptions C04_fold.

(* Since ed948fd.. / the unified return rule (a handler that returns nothing, Skip, or raises keeps the value left so far for EVERY
   event; for 'call' the fold starts from the tracer's own trace function): the composition rule also holds for the system events,
   which take one tracer's own fold (tracer._emit_event; they do not go through the stack loop).  Before the repair a handler
   returning nothing reset the running value of a 'call' / 'exception' event to the tracer's trace function: the second handler of
   an exception was told a function instead of the (type, value, traceback), and an earlier handler's Null or replacement trace
   function was discarded. *)
Theorem C04_tracer_fold_any_event : forall ev ti t v th log,
  handlers_plain (t_handlers t) -> t_propagate t = false -> t_hard_disabled t = false -> plain v = true ->
  exists th', tracer_emit ev false ti t v th log =
    (match spec_tracer ti 0 (t_handlers t) v log with (w, true, _) => TVal (RTuple2 RSkipAll w) | (w, false, _) => TVal w end,
     th', snd (spec_tracer ti 0 (t_handlers t) v log)).
Proof. exact tracer_fold_any. Qed.
Print Assumptions C04_tracer_fold_any_event.
Theorem C04_stack_fold_any_event : forall ev ts ti v log, tracers_plain ts -> plain v = true ->
  exists ths, tracer_loop ev true false false false ti ts v log =
              (TVal (fst (spec_all ti ts v log)), ths, snd (spec_all ti ts v log)) /\ plain (fst (spec_all ti ts v log)) = true.
Proof. intros ev. exact (loop_refines_any ev). Qed.
Print Assumptions C04_stack_fold_any_event.

(* before_stmt: the program runs the replacement finally left, skips on Pass, runs the original statement when the
   value is falsy - whichever stacked tracer's exec_saved_thunk is installed in builtins *)
Theorem C04_before_stmt : forall ts, tracers_plain ts ->
  forall r fl' ths log, emit E_before_stmt true fl0 ts RNone = (r, fl', ths, log) ->
  forall owner t, nth_error ts owner = Some t ->
  before_stmt_action r (nth owner ths None) = spec_action (fst (spec_all 0 ts RNone [])).
Proof. exact before_stmt_any. Qed.
Print Assumptions C04_before_stmt.

(* non-vacuity: a two-tracer arrangement with value-dependent outcomes satisfies the hypotheses, and the rule gives
   the expected value and log (Null after an override, Skip cutting the first tracer short) *)
Definition ex_h (f : rv -> hout) : hspec :=
  {| h_reentrant := false; h_guard_skip := false; h_pred := true; h_fun := f |}.
Definition ex_ts : list tracer :=
  [mk_tracer [ex_h (fun v => match v with RUser 41 _ => HRet (RUser 5 false) | _ => HRaise end);
              ex_h (fun _ => HRet RSkip); ex_h (fun _ => HRet (RUser 99 false))];
   mk_tracer [ex_h (fun _ => HRaise); ex_h (fun _ => HRet RNull)]].
Example C04_nonvacuous :
  tracers_plain ex_ts /\
  spec_all 0 ex_ts (RUser 41 false) [] =
    (RNone, [(0, 0, RUser 41 false); (0, 1, RUser 5 false); (1, 0, RUser 5 false); (1, 1, RUser 5 false)]%nat).
Proof.
  split; [|vm_compute; reflexivity].
  intros t Ht. cbn in Ht. destruct Ht as [<-|[<-|[]]]; split; auto; intros h v Hh; cbn in Hh.
  - destruct Hh as [<-|[<-|[<-|[]]]]; cbn; auto. destruct v; auto. destruct (N.eqb u 41) eqn:E; auto.
    apply N.eqb_eq in E; subst; auto. destruct u; auto. repeat (destruct p; auto).
  - destruct Hh as [<-|[<-|[]]]; reflexivity.
Qed.
