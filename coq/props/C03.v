(* C03 - what a tracer sees for an event does not depend on which other events are on.
   Two statements, both about the REAL rewriter outputs (exported from CPython ASTs), decided program by program by
   checkers evaluated in coqc and made meaningful by the soundness theorems below:
   * check_only_subscribed subs out: every emission site of `out` is for a subscribed event, one of the two private
     helper events, or after_stmt serving a subscribed after_module_stmt  (C03_only_subscribed);
   * check_proj K out1 out2 (model/Prune.v): the outputs for E1 and for E2 (E1 within E2), K-erased for K = E1 - every
     site outside K removed together with guard / fallback scaffolding, kept sites left in place - are the same tree.
     C03_proj_sound: for EVERY semantics of Python ASTs and every equivalence eqvK ("same behaviour and same sub-stream of
     the K events") under which each root rewrite of the K-erasure is valid, a passed check implies that the two
     rewritten programs are eqvK-equivalent: the stream under E1 equals the stream under E2 filtered to E1.
   ./check C03 obtains both certificates for every generated program x pair of subsets, and compares the recorded streams
   of the two real runs (the laws are facts about CPython and about observing handlers; validated there, not proved). *)
From Coq Require Import List ZArith NArith Bool.
Import ListNotations.
From PyccoloV Require model.FragSem proofs.FragSemProofs model.FragFun model.FragProg proofs.FragProgProofs.
From PyccoloV Require Import gen.PyAst gen.Ids gen.Events model.Tree model.Erase model.Prune model.RwFrag proofs.EraseSound proofs.PruneSound
  proofs.RwFragProofs proofs.RwFragProj.

Theorem C03_proj_sound :
  forall (D : Type) (dnone : D) (sem : N -> list scalar -> list (list D) -> D) (K : list N) (eqvK : list D -> list D -> Prop),
  (forall l, eqvK l l) ->
  (forall a b, eqvK a b -> eqvK b a) ->
  (forall a b c, eqvK a b -> eqvK b c -> eqvK a c) ->
  (forall a a' b b', eqvK a a' -> eqvK b b' -> eqvK (a ++ b) (a' ++ b')) ->
  (forall k sc fs fs', Forall2 eqvK fs fs' -> eqvK [sem k sc fs] [sem k sc fs']) ->
  (forall k sc fs l, postk K k sc fs = Some l -> eqvK [den D dnone sem (T k sc fs)] (map (den D dnone sem) l)) ->
  forall out1 out2, check_proj K out1 out2 = true -> eqvK [den D dnone sem out1] [den D dnone sem out2].
Proof. exact check_proj_sound. Qed.
Print Assumptions C03_proj_sound.

Theorem C03_only_subscribed : forall subscribed out,
  check_only_subscribed subscribed out = true ->
  forall ev nid, In (ev, nid) (sites out) -> site_allowed subscribed ev = true.
Proof. exact check_only_subscribed_sound. Qed.
Print Assumptions C03_only_subscribed.

(* the K-erasure of a tree whose sites are all kept keeps every site *)
Theorem C03_kept_sites_all : forall K out, forallb (fun s => mem (fst s) K) (sites out) = true -> kept_sites K out = sites out.
Proof. exact kept_sites_all. Qed.
Print Assumptions C03_kept_sites_all.

(* ---- the unbounded statement on the fragment model of the rewriter (model/RwFrag.v, tied to the real rewriter by K-syn):
   for EVERY fragment program, EVERY set K of events and EVERY subscription set containing K, K-erasing the rewrite gives one
   and the same tree (C03_rw_frag_canonical), so the rewrite for K alone and the rewrite for the superset pass the projection
   check (C03_rw_frag_proj): what a tracer subscribed to K sees does not depend on which other events are on. *)
Theorem C03_rw_frag_canonical : forall (K : list N) (c : rcfg) (m : tree),
  inK K E_priv_load_saved_expr_stmt_ret = false -> (forall e, inK K e = true -> sub c e = true) -> in_frag m = true ->
  erasek K (rw_module c m) = Some [rw_moduleK K m].
Proof. intros K c m HK Hs Hm. exact (rw_module_proj K HK c Hs m Hm). Qed.
Print Assumptions C03_rw_frag_canonical.
Theorem C03_rw_frag_proj : forall (K : list N) (c : rcfg) (m : tree),
  inK K E_priv_load_saved_expr_stmt_ret = false -> (forall e, inK K e = true -> sub c e = true) -> in_frag m = true ->
  check_proj K (rw_module (cK K) m) (rw_module c m) = true.
Proof. intros K c m HK Hs Hm. exact (rw_module_check_proj K HK c m Hs Hm). Qed.
Print Assumptions C03_rw_frag_proj.

(* non-vacuity: `x + 1` rewritten for {load_name} and for {load_name, after_binop}: the projection check passes for
   K = {load_name}; it fails when the larger rewrite lost the load_name site, or reports another node *)
Local Open Scope N_scope.
Definition ld : tree := T kLoad [] [].
Definition nm (x : N) : tree := T kName [SId x] [[ld]].
Definition cst (z : Z) : tree := T kConstant [SInt z; SNone] [].
Definition emit_call (ev : event) (n : N) (r : tree) : tree :=
  T kCall [] [[nm id_emit]; [T kConstant [SStr (ev_code ev); SNone] []; T kConstant [SNid n; SNone] []]; [T kkeyword [SId id_ret] [[r]]]].
Definition out1 : tree := T kBinOp [] [[emit_call E_load_name 1 (nm 100)]; [T kAdd [] []]; [cst 1]].
Definition out2 : tree := emit_call E_after_binop 0 out1.
Definition out2_lost : tree := emit_call E_after_binop 0 (T kBinOp [] [[nm 100]; [T kAdd [] []]; [cst 1]]).
Definition out2_moved : tree := emit_call E_after_binop 0 (T kBinOp [] [[emit_call E_load_name 4 (nm 100)]; [T kAdd [] []]; [cst 1]]).
Definition K1 : list N := [ev_code E_load_name].
Example C03_nonvacuous :
  check_proj K1 out1 out2 = true /\ check_proj K1 out1 out2_lost = false /\ check_proj K1 out1 out2_moved = false
  /\ check_only_subscribed K1 out1 = true /\ check_only_subscribed K1 out2 = false.
Proof. vm_compute. repeat split; reflexivity. Qed.

(* the projection property as a statement about EVALUATION on the fragment (model/FragSem.v), for ALL primitive operations: the stream
   a tracer receives for its events K from the program instrumented for any superset E is the stream it receives when K alone is subscribed *)
Theorem C03_frag_projection : forall binop cmpop unop truth cval is_and (K E : rcfg) (body : list FragSem.tstmt) (r : FragSem.env) (sv sv' : FragSem.val),
  forallb FragSemProofs.src_s body = true -> (forall e, sub K e = true -> sub E e = true) ->
  FragSem.filter_log K (FragSem.s_log (FragSem.exec_l binop cmpop unop truth cval is_and (FragSem.instr_module E body) r sv)) =
  FragSem.filter_log K (FragSem.s_log (FragSem.exec_l binop cmpop unop truth cval is_and (FragSem.instr_module K body) r sv')).
Proof. exact FragSemProofs.frag_projection. Qed.
Print Assumptions C03_frag_projection.

(* ... and with LOOPS AND FUNCTIONS (model/FragProg.v): as long as no handler touches a guard (the guards stay in any fixed state G), the stream a
   tracer receives for its events K from the program instrumented for any superset E is the stream it receives when K alone is subscribed -
   for all primitive operations, guard states, guard settings, fuels, source modules and environments.  (When handlers do flip guards the two
   runs can differ legitimately: the handlers of E see more events and may flip at other moments; that dependence is C10's subject.) *)
Theorem C03_prog_projection : forall binop cmpop unop truth cval is_and fuel (K E : rcfg) (G : FragProg.guard -> bool) ge m d r sv sv',
  forallb FragProgProofs.psrc_t m = true -> (forall e, sub K e = true -> sub E e = true) ->
  FragSem.filter_log K (FragProg.p_log (FragProg.prun binop cmpop unop truth cval is_and E (fun _ g => G g) fuel d (FragProg.pinstr_module E ge m) r sv)) =
  FragSem.filter_log K (FragProg.p_log (FragProg.prun binop cmpop unop truth cval is_and K (fun _ g => G g) fuel d (FragProg.pinstr_module K ge m) r sv')).
Proof. exact FragProgProofs.prog_projection. Qed.
Print Assumptions C03_prog_projection.

(* non-vacuity: `def f(p): while p: return p` / `a = f(1)`: with load_name alone 3 loads are delivered; with everything subscribed 27 events, of
   which the same 3 loads *)
Example C03_prog_projection_nonvacuous :
  let m := [FragProg.PDef 1 100 [101] [FragProg.PWhile 4 (FragSem.XName 5 101) [FragProg.PReturn 7 (Some (FragFun.RExp (FragSem.XName 8 101)))] []];
            FragProg.PAssign 10 [102] (FragFun.RCall 13 false false false (FragSem.XName 14 100) [FragSem.XConst 16 (SInt 1%Z)])]%N in
  let K := {| sub := fun e => event_eqb e E_load_name |} in
  let E := {| sub := fun _ => true |} in
  let run c := FragProg.p_log (FragProg.prun FragSem.Py.binop FragSem.Py.cmpop FragSem.Py.unop FragSem.Py.truth FragSem.Py.cval FragSem.Py.is_and c (fun _ _ => true) 5 3
                                 (FragProg.pinstr_module c true m) (fun _ => None) FragSem.VNone) in
  forallb FragProgProofs.psrc_t m = true /\ length (run K) = 3%nat /\ FragSem.filter_log K (run E) = run K /\ Nat.ltb 20 (length (run E)) = true.
Proof. vm_compute. repeat split; reflexivity. Qed.
