(* C17 - other threads never cost the main thread an event.
   Model: model/Threads.v: every emission is the sequence of statement-level steps of _emit_event/_emit_tracer_loop on
   the two re-entrancy switches; a schedule is any list of thread indices (thread 0 = main thread).
   gen/Switches.v is REGENERATED from emit_event.py on every run and says whether the switches are process-wide
   globals (true) or per-thread (false); the theorems below are stated for the switches the code has NOW, so they
   only check while the code keeps them per-thread.  The step granularity (GIL: one statement at a time) and the
   step bodies are tied to the code by the K-thr scheduler of ./check C17. *)
From Coq Require Import List NArith Bool Arith.
Import ListNotations.
From PyccoloV Require Import gen.Switches model.Threads proofs.ThreadsProofs.
From PyccoloV Require model.Thunk proofs.ThunkProofs.

(* for every number of threads and emissions, every tracer configuration and EVERY schedule: what the main thread
   observes (its deliveries in order, its switches, its own progress) is what it observes under the schedule with all
   steps of other threads removed - during and after the concurrent activity *)
Theorem C17_main : forall ts sched s s', wf s -> wf s' ->
  main_view switches_shared s = main_view switches_shared s' ->
  main_view switches_shared (run_sched switches_shared ts s sched) =
  main_view switches_shared (run_sched switches_shared ts s' (filter (fun t => t =? 0) sched)).
Proof. exact main_independent. Qed.
Print Assumptions C17_main.

(* instrumented code in other threads is delivered only to tracers that opted into multiple threads *)
Theorem C17_workers : forall ts sched s, Forall (worker_ok ts) (dlog s) ->
  Forall (worker_ok ts) (dlog (run_sched switches_shared ts s sched)).
Proof. exact (workers_only_multi switches_shared). Qed.
Print Assumptions C17_workers.

(* the defect of the pinned tree (one process-wide pair of switches), kept as a checked witness: an 8-step overlap
   loses the main thread's event and leaves delivery off for good *)
Theorem C17_shared_switches_refuted :
  let ts := [{| multi_thread := false; allow_re := false; h_re := false |}] in
  let s0 := init [2; 1] in
  fst (fst (main_view true (run_sched true ts s0 w_sched))) = [] /\
  fst (fst (main_view true (run_sched true ts s0 (filter (fun t => t =? 0) w_sched)))) = [(0, 0); (0, 0)] /\
  sA (snd (fst (main_view true (run_sched true ts s0 w_sched)))) = false.
Proof. exact shared_switches_refuted. Qed.
Print Assumptions C17_shared_switches_refuted.

(* replaced statements (before_stmt handlers returning a replacement): the rewritten statement is
       if <emit before_stmt>: <exec saved thunk>() else: <original statement>
   and other threads may emit between the two halves.  model/Thunk.v: one step = one half; gen/Switches.v says, from
   tracer.py and emit_event.py as they are NOW, whether the slot is per thread and on which tracers the emission stores.
   For every assignment of multi-thread flags, every top tracer, all programs of all threads and EVERY schedule: what a
   thread has done so far, followed by what its remaining statements do when it runs alone, is what it does alone, and
   no thread has failed. *)
Theorem C17_replaced_statements : forall multi top progs sched u,
  let th := Thunk.threads (Thunk.run thunk_shared thunk_store_all multi top sched (Thunk.init progs)) u in
  Thunk.outs th ++ map Thunk.spec_out (Thunk.todo th) = map Thunk.spec_out (progs u) /\ Thunk.dead th = false.
Proof. exact ThunkProofs.local_threads_undisturbed. Qed.
Print Assumptions C17_replaced_statements.

(* the two defects of the pinned tree, kept as checked witnesses: a process-wide slot (the main thread fails), and a
   per-thread slot stored only on tracers that may see the thread (a worker statement replaced below a main-only top tracer fails) *)
Theorem C17_shared_slot_refuted :
  Thunk.outs (Thunk.threads (Thunk.run true false (fun _ => true) 0 [0; 1; 0]%nat (Thunk.init (fun t => if t =? 0 then [Some 7%N] else [None]))) 0) = [Thunk.Fail] /\
  Thunk.outs (Thunk.threads (Thunk.run false false (fun k => k =? 0) 1 [1; 1]%nat (Thunk.init (fun t => if t =? 1 then [Some 7%N] else []))) 1) = [Thunk.Fail].
Proof. exact (conj ThunkProofs.shared_refuted ThunkProofs.visible_only_refuted). Qed.
Print Assumptions C17_shared_slot_refuted.

(* non-vacuity: the initial state of 3 threads is well formed; under the same interleaving that breaks shared
   switches, per-thread switches give the main thread both of its events *)
Example C17_nonvacuous :
  wf (init [2; 1; 3]) /\
  fst (fst (main_view false (run_sched false [{| multi_thread := false; allow_re := false; h_re := false |}] (init [2; 1]) w_sched)))
    = [(0, 0); (0, 0)].
Proof. split; [reflexivity|vm_compute; reflexivity]. Qed.
Example C17_replaced_nonvacuous :
  Thunk.outs (Thunk.threads (Thunk.run thunk_shared thunk_store_all (fun _ => true) 0 [0; 1; 0; 1]%nat (Thunk.init (fun t => if t =? 0 then [Some 7%N] else [None; Some 3%N]))) 0) = [Thunk.Ran 7%N].
Proof. vm_compute. reflexivity. Qed.
