(* C02 - each event fires exactly once per occurrence, in order, with true value and node.
   Three layers:
   (static)  the rewriter output is checked, program by program, by two verified checkers evaluated in coqc:
             check_erase (C01: the output is the source plus recognised instrumentation shapes) and check_sites
             (model/Sites.v: at every emit site, the expression handed to the handler is - after erasing its own
             instrumentation - exactly the source construct, located by the node id embedded in the site, whose value the
             event table says the event reports).  C02_site_value turns a passed check into semantic equivalence, for
             every semantics satisfying the laws of proofs/EraseSound.v.
   (delivery) one occurrence reaching emit_event is delivered to each enabled handler exactly once, in stack order, carrying
             the value unchanged: C02_delivered_once / C02_delivery_order / C02_value (from the runtime fold of model/Rt.v,
             whose decision functions are regenerated from tracer.py on every run).
   (dynamic) ./check C02 compares the complete recorded stream (event, node type, node span, value) with the stream of an
             independent probe-inserting reference instrumenter (tools/impl/ref_instr.py) on generated programs. *)
From Coq Require Import List ZArith NArith Bool Sorted.
Import ListNotations.
From PyccoloV Require model.RwFrag model.FragSem proofs.FragSemProofs model.FragFun proofs.FragFunProofs model.FragProg proofs.FragProgProofs.
From PyccoloV Require Import gen.PyAst gen.Ids gen.Events gen.EmitRet model.Val model.Rt model.Tree model.Erase model.Sites
  proofs.RtProofs proofs.DeliverProofs proofs.EraseSound.

Theorem C02_emit_observing : forall ev ts v, ast_event ev = true -> Forall observing ts -> plain v = true ->
  exists ths, emit ev true fl0 ts v = (TVal (make_ret ev v), fl0, ths, stack_calls 0 ts v).
Proof. exact emit_observing. Qed.
Print Assumptions C02_emit_observing.

(* handler k of a tracer's list for the event is called iff it is enabled (condition holds, local guard not set) ... *)
Theorem C02_delivered_iff : forall ti hs hi k h v, nth_error hs k = Some h ->
  (In (ti, hi + k, v) (calls_of ti hi hs v) <-> h_enabled h = true).
Proof. exact calls_of_in. Qed.
Print Assumptions C02_delivered_iff.

(* ... and the calls of one occurrence are STRICTLY ordered by (tracer position, handler position): nothing is delivered
   twice, and the order is activation order then definition order *)
Theorem C02_delivery_order : forall ts ti v, StronglySorted lex (stack_calls ti ts v).
Proof. exact stack_sorted. Qed.
Print Assumptions C02_delivery_order.

Theorem C02_value : forall ts v, Forall (fun c => c_val c = v) (stack_calls 0 ts v).
Proof. exact stack_values. Qed.
Print Assumptions C02_value.

Theorem C02_site_value :
  forall (D : Type) (dnone : D) (sem : N -> list scalar -> list (list D) -> D) (eqvl : list D -> list D -> Prop),
  (forall l, eqvl l l) ->
  (forall a b c, eqvl a b -> eqvl b c -> eqvl a c) ->
  (forall a a' b b', eqvl a a' -> eqvl b b' -> eqvl (a ++ b) (a' ++ b')) ->
  (forall k sc fs fs', Forall2 eqvl fs fs' -> eqvl [sem k sc fs] [sem k sc fs']) ->
  (forall sc fs l, post kCall sc fs = Some l -> eqvl [den D dnone sem (T kCall sc fs)] (map (den D dnone sem) l)) ->
  (forall sc fs l, post kIfExp sc fs = Some l -> eqvl [den D dnone sem (T kIfExp sc fs)] (map (den D dnone sem) l)) ->
  (forall sc fs l, post kIf sc fs = Some l -> eqvl [den D dnone sem (T kIf sc fs)] (map (den D dnone sem) l)) ->
  (forall sc fs l, post kTry sc fs = Some l -> eqvl [den D dnone sem (T kTry sc fs)] (map (den D dnone sem) l)) ->
  (forall sc fs l, post kExpr sc fs = Some l -> eqvl [den D dnone sem (T kExpr sc fs)] (map (den D dnone sem) l)) ->
  (forall sc fs l, post kSubscript sc fs = Some l -> eqvl [den D dnone sem (T kSubscript sc fs)] (map (den D dnone sem) l)) ->
  (forall t, eqvl [den D dnone sem (norm t)] [den D dnone sem t]) ->
  forall pre t ev n rest kws r node s v,
    emit_parts t = Some (ev, SNid n, rest, kws) -> sel_of ev = Some s -> kw_value id_ret kws = Some r -> tlam_parts r = None ->
    nth_error pre (N.to_nat n) = Some node -> select s node = Some v ->
    site_ok pre t = true -> eqvl [den D dnone sem r] [den D dnone sem v].
Proof. exact site_ok_sound. Qed.
Print Assumptions C02_site_value.

(* non-vacuity: x + 1 rewritten with load_name and after_binop subscribed: both sites pass; a site reporting the wrong
   operand fails *)
Local Open Scope N_scope.
Definition ld : tree := T kLoad [] [].
Definition nm (x : N) : tree := T kName [SId x] [[ld]].
Definition cst (z : Z) : tree := T kConstant [SInt z; SNone] [].
Definition emit_call (ev : event) (n : N) (r : tree) : tree :=
  T kCall [] [[nm id_emit]; [T kConstant [SStr (ev_code ev); SNone] []; T kConstant [SNid n; SNone] []]; [T kkeyword [SId id_ret] [[r]]]].
Definition ex_src : tree := T kBinOp [] [[nm 100]; [T kAdd [] []]; [cst 1]].
Definition ex_out : tree := emit_call E_after_binop 0 (T kBinOp [] [[emit_call E_load_name 1 (nm 100)]; [T kAdd [] []]; [cst 1]]).
Definition ex_bad : tree := emit_call E_after_binop 0 (T kBinOp [] [[emit_call E_load_name 4 (nm 100)]; [T kAdd [] []]; [cst 1]]).
Example C02_nonvacuous : check_sites ex_src ex_out = true /\ check_sites ex_src ex_bad = false /\ check_erase ex_src ex_out = true.
Proof. vm_compute. repeat split; reflexivity. Qed.

(* the event stream on the fragment (model/FragSem.v), for ALL primitive operations, subscriptions, source modules and environments:
   the events the tracer subscribes to arrive exactly as the reference evaluator `ref_module` writes them out construct by construct
   (this is the event table of DESIGN 11 restricted to the fragment): each occurrence once, in evaluation order, with the value and
   the node of that occurrence, also when the program raises half-way.  K-sem compares both sides with real runs. *)
Theorem C02_frag_stream : forall binop cmpop unop truth cval is_and (c : RwFrag.rcfg) (body : list FragSem.tstmt) (r : FragSem.env) (sv : FragSem.val),
  forallb FragSemProofs.src_s body = true ->
  FragSem.filter_log c (FragSem.s_log (FragSem.exec_l binop cmpop unop truth cval is_and (FragSem.instr_module c body) r sv)) =
  FragSem.filter_log c (FragSem.r_log (FragSem.ref_module binop cmpop unop truth cval is_and body r)).
Proof. exact FragSemProofs.frag_stream. Qed.
Print Assumptions C02_frag_stream.

(* non-vacuity: `a = 2 + 3` with the binop events and after_assign_rhs subscribed: the stream is
   before_binop, left_binop_arg 2, right_binop_arg 3, after_binop 5, after_assign_rhs 5 *)
Example C02_frag_stream_nonvacuous :
  let body := [FragSem.SAssign 1 [100] (FragSem.XBin 4 (FragSem.XConst 5 (SInt 2%Z)) kAdd (FragSem.XConst 7 (SInt 3%Z)))] in
  let c := {| RwFrag.sub := fun e => existsb (event_eqb e) [E_before_binop; E_left_binop_arg; E_right_binop_arg; E_after_binop; E_after_assign_rhs] |} in
  forallb FragSemProofs.src_s body = true /\
  FragSem.filter_log c (FragSem.s_log (FragSem.exec_l FragSem.Py.binop FragSem.Py.cmpop FragSem.Py.unop FragSem.Py.truth FragSem.Py.cval FragSem.Py.is_and
                                         (FragSem.instr_module c body) (fun _ => None) FragSem.VNone)) =
  [(E_before_binop, 4, None); (E_left_binop_arg, 5, Some (FragSem.VInt 2)); (E_right_binop_arg, 7, Some (FragSem.VInt 3));
   (E_after_binop, 4, Some (FragSem.VInt 5)); (E_after_assign_rhs, 4, Some (FragSem.VInt 5))].
Proof. vm_compute. split; reflexivity. Qed.

(* ... and with FUNCTIONS (model/FragFun.v): the subscribed events arrive exactly as the reference `fref_module` writes them out - per call
   before_load_complex_symbol, the load of the callee, before_call, per argument before_argument / its events / after_argument, then the
   body (before_function_body, its statements, after_function_execution ONCE PER INVOCATION HOWEVER IT ENDS: return, falling off the end,
   exception), after_call, after_load_complex_symbol; per `return v` before_return, the events of v, after_return - for all primitive
   operations, subscriptions, guard settings and policies, call depths, source modules and environments.  K-fun compares with real runs. *)
Theorem C02_fun_stream : forall binop cmpop unop truth cval is_and c ge pol m d r sv,
  forallb FragFunProofs.fsrc_t m = true ->
  FragSem.filter_log c (FragFun.f_log (FragFun.frun binop cmpop unop truth cval is_and c pol d (FragFun.finstr_module c ge m) r sv)) =
  FragSem.filter_log c (FragFun.fr_log (FragFun.fref_module binop cmpop unop truth cval is_and c pol ge d m r)).
Proof. exact FragFunProofs.fun_stream. Qed.
Print Assumptions C02_fun_stream.

(* non-vacuity: `def f(p): return p // 0` then `a = f(1)` with the function and call events subscribed: the invocation raises, and still
   after_function_execution closes it; after_call / after_return are not delivered *)
Example C02_fun_stream_nonvacuous :
  let m := [FragFun.FDef 1 100 [101] [FragFun.FReturn 4 (Some (FragFun.RExp (FragSem.XBin 5 (FragSem.XName 6 101) kFloorDiv (FragSem.XConst 9 (SInt 0%Z)))))];
            FragFun.FAssign 10 [102] (FragFun.RCall 13 false false false (FragSem.XName 14 100) [FragSem.XConst 16 (SInt 1%Z)])]%N in
  let c := {| RwFrag.sub := fun e => existsb (event_eqb e) [E_before_function_body; E_after_function_execution; E_before_call; E_after_call;
                                                            E_before_return; E_after_return; E_after_argument] |} in
  forallb FragFunProofs.fsrc_t m = true /\
  let a := FragFun.frun FragSem.Py.binop FragSem.Py.cmpop FragSem.Py.unop FragSem.Py.truth FragSem.Py.cval FragSem.Py.is_and c (fun _ _ => true) 3
             (FragFun.finstr_module c true m) (fun _ => None) FragSem.VNone in
  FragFun.f_exc a = Some (FragFun.FX FragSem.EZeroDiv) /\
  FragFun.f_log a = [(E_before_call, 13, Some (FragSem.VFun 1)); (E_after_argument, 16, Some (FragSem.VInt 1));
                     (E_before_function_body, 1, Some (FragSem.VBool true)); (E_before_return, 5, None); (E_after_function_execution, 1, Some FragSem.VNone)]%N.
Proof. vm_compute. repeat split; reflexivity. Qed.

(* ... and with LOOPS AND FUNCTIONS TOGETHER (model/FragProg.v): the subscribed events are those of the reference `pref_module`; in particular
   after_while_loop_iter closes every instrumented iteration and after_function_execution every instrumented invocation however they end -
   `return` from inside a loop passes both.  K-prog compares with real runs. *)
Theorem C02_prog_stream : forall binop cmpop unop truth cval is_and fuel c ge pol m d r sv,
  forallb FragProgProofs.psrc_t m = true ->
  FragSem.filter_log c (FragProg.p_log (FragProg.prun binop cmpop unop truth cval is_and c pol fuel d (FragProg.pinstr_module c ge m) r sv)) =
  FragSem.filter_log c (FragProg.pr_log (FragProg.pref_module binop cmpop unop truth cval is_and c pol fuel ge d m r)).
Proof. exact FragProgProofs.prog_stream. Qed.
Print Assumptions C02_prog_stream.

(* non-vacuity: `def f(p): while p: return p` then `a = f(1)` with the loop and function brackets subscribed: the `return` leaves the loop and the
   function, after_while_loop_iter and after_function_execution both arrive, in that order *)
Example C02_prog_stream_nonvacuous :
  let m := [FragProg.PDef 1 100 [101] [FragProg.PWhile 4 (FragSem.XName 5 101) [FragProg.PReturn 7 (Some (FragFun.RExp (FragSem.XName 8 101)))] []];
            FragProg.PAssign 10 [102] (FragFun.RCall 13 false false false (FragSem.XName 14 100) [FragSem.XConst 16 (SInt 1%Z)])]%N in
  let c := {| RwFrag.sub := fun e => existsb (event_eqb e) [E_before_function_body; E_after_function_execution; E_before_while_loop_body; E_after_while_loop_iter; E_after_return] |} in
  forallb FragProgProofs.psrc_t m = true /\
  let a := FragProg.prun FragSem.Py.binop FragSem.Py.cmpop FragSem.Py.unop FragSem.Py.truth FragSem.Py.cval FragSem.Py.is_and c (fun _ _ => true) 5 3
             (FragProg.pinstr_module c true m) (fun _ => None) FragSem.VNone in
  FragProg.p_exc a = None /\ FragProg.p_env a 102%N = Some (FragSem.VInt 1) /\
  FragProg.p_log a = [(E_before_function_body, 1, Some (FragSem.VBool true)); (E_before_while_loop_body, 4, Some (FragSem.VBool true));
                      (E_after_return, 8, Some (FragSem.VInt 1)); (E_after_while_loop_iter, 4, Some FragSem.VNone);
                      (E_after_function_execution, 1, Some FragSem.VNone)]%N.
Proof. vm_compute. repeat split; reflexivity. Qed.
