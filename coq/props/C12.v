(* C12 - imports are instrumented exactly when the tracer opts the file in.
   model/Import.v (part 1) is the decision logic of TraceFinder.find_spec, TraceLoader.get_tracers_for_path /
   source_to_code / exec_module and _file_passes_filter_impl; it is tied to import_hooks.py by ./check C12, which imports
   generated packages in real subprocesses under stacks of tracers with different filename filters and compares, per module and
   per tracer, who got events with compile_of / receives evaluated in coqc (and namespaces / event streams with the plain and
   the one-tracer processes). That nothing is instrumented after the context is C07's finder-removal theorem plus the
   post-context imports of the same runs. *)
From Coq Require Import List NArith Bool.
Import ListNotations.
From PyccoloV Require Import model.Import proofs.ImportProofs.

(* rewritten for EXACTLY the accepting tracers of the stack, in stack order; stock compile when none accepts *)
Theorem C12_iff : forall stack f,
  compile_of stack f true true =
    match filter (fun t => t_accepts t f) stack with [] => Stock | ts => Rewritten (map t_id ts) end.
Proof. exact compile_exact. Qed.
Print Assumptions C12_iff.
Theorem C12_plain_iff : forall stack f,
  compile_of stack f true true = Stock <-> forall t, In t stack -> t_accepts t f = false.
Proof. exact compile_stock_iff. Qed.
Print Assumptions C12_plain_iff.
(* modules that are not ordinary source files, and imports on other threads, are never touched *)
Theorem C12_other_loader : forall stack f same_thread, compile_of stack f false same_thread = Stock.
Proof. exact compile_other_loader. Qed.
Print Assumptions C12_other_loader.
Theorem C12_other_thread : forall stack f src, compile_of stack f src false = Stock.
Proof. exact compile_other_thread. Qed.
Print Assumptions C12_other_thread.
(* a loader handed out under one stack and loading under another (lazy loading, a spec kept for later): rewritten for exactly the
   accepting tracers of the first that are still on the second; after the context - nothing on the stack - it is a plain loader
   ("nothing is instrumented after the context": before e42320a it went on rewriting for the tracers it held) *)
Theorem C12_later_iff : forall found load f,
  compile_later found load f true true =
    match filter (fun t => existsb (N.eqb (t_id t)) (map t_id load)) (filter (fun t => t_accepts t f) found) with
    | [] => Stock | ts => Rewritten (map t_id ts) end.
Proof. exact compile_later_exact. Qed.
Print Assumptions C12_later_iff.
Theorem C12_after_context : forall found f src same, compile_later found [] f src same = Stock.
Proof. exact compile_later_after. Qed.
Print Assumptions C12_after_context.
Theorem C12_later_now : forall stack f src same, compile_later stack stack f src same = compile_of stack f src same.
Proof. exact compile_later_now. Qed.
Print Assumptions C12_later_now.
(* while a module body runs, no tracer that accepts the module is switched off *)
Theorem C12_accepting_stay_enabled : forall stack f t, In t stack -> t_accepts t f = true ->
  (forall t', In t' stack -> t_id t' = t_id t -> t' = t) -> ~ In (t_id t) (disabled_during_exec stack f).
Proof. exact disabled_never_accepting. Qed.
Print Assumptions C12_accepting_stay_enabled.

(* non-vacuity: three tracers, the middle one accepts file 7, the last one only wants its import events *)
Local Open Scope N_scope.
Definition mk (i : N) (acc : N -> bool) (imp : bool) : tracer := {| t_id := i; t_accepts := acc; t_import_events := fun _ => imp; t_enabled := true |}.
Definition ex_stack : list tracer := [mk 1 (fun _ => false) false; mk 2 (N.eqb 7) false; mk 3 (fun _ => false) true].
Example C12_nonvacuous :
  compile_of ex_stack 7 true true = Rewritten [2] /\ compile_of ex_stack 8 true true = Stock
  /\ disabled_during_exec ex_stack 7 = [3] /\ wraps ex_stack 8 true true = true.
Proof. vm_compute. repeat split; reflexivity. Qed.
