(* C05 - stacked tracers each behave as if alone, served outermost-first.
   (delivery) one occurrence reaching emit_event with a stack of observing tracers: the calls made are stack_calls
             (C05_emit_observing, from the runtime fold of model/Rt.v whose decision functions are regenerated from
             tracer.py on every run); what tracer number k receives is exactly what it receives as the only tracer
             (C05_solo_delivery), a tracer without a handler for the event receives nothing (C05_unsubscribed_silent), and
             the calls are strictly ordered by (stack position, handler position): outermost first, nothing twice
             (C05_order).
   (rewrite)  the rewrite is driven by the union of the subscriptions; check_proj K_i out_solo_i out_stacked is evaluated
             in coqc for every tracer i of every generated stack: the output for the stack and the output for tracer i
             alone, K-erased for K_i = tracer i's events, are the same tree.  C05_proj_sound turns a passed check into
             equivalence with respect to the K_i-stream for every semantics satisfying the stated laws.
   (dynamic)  ./check C05 compares, on the real library, each tracer's recorded stream stacked vs alone, and the global
             delivery log with the stream of a single tracer subscribed to the union expanded in stack order. *)
From Coq Require Import List ZArith NArith Bool Arith Sorted.
Import ListNotations.
From PyccoloV Require model.RwFrag model.FragSem proofs.FragSemProofs model.FragProg proofs.FragProgProofs.
From PyccoloV Require Import gen.PyAst gen.Ids gen.Events gen.EmitRet model.Val model.Rt model.Tree model.Erase model.Prune
  proofs.RtProofs proofs.DeliverProofs proofs.EraseSound proofs.PruneSound.

Theorem C05_emit_observing : forall ev ts v, ast_event ev = true -> Forall observing ts -> plain v = true ->
  exists ths, emit ev true fl0 ts v = (TVal (make_ret ev v), fl0, ths, stack_calls 0 ts v).
Proof. exact emit_observing. Qed.
Print Assumptions C05_emit_observing.

Theorem C05_solo_delivery : forall ts ti k t v, nth_error ts k = Some t ->
  filter (fun c => c_ti c =? ti + k) (stack_calls ti ts v) = stack_calls (ti + k) [t] v.
Proof. exact stack_solo. Qed.
Print Assumptions C05_solo_delivery.

Theorem C05_unsubscribed_silent : forall ti t v, t_handlers t = [] -> stack_calls ti [t] v = [].
Proof. exact unsubscribed_silent. Qed.
Print Assumptions C05_unsubscribed_silent.

Theorem C05_order : forall ts ti v, StronglySorted lex (stack_calls ti ts v).
Proof. exact stack_sorted. Qed.
Print Assumptions C05_order.

Theorem C05_value : forall ts v, Forall (fun c => c_val c = v) (stack_calls 0 ts v).
Proof. exact stack_values. Qed.
Print Assumptions C05_value.

Theorem C05_proj_sound :
  forall (D : Type) (dnone : D) (sem : N -> list scalar -> list (list D) -> D) (K : list N) (eqvK : list D -> list D -> Prop),
  (forall l, eqvK l l) ->
  (forall a b, eqvK a b -> eqvK b a) ->
  (forall a b c, eqvK a b -> eqvK b c -> eqvK a c) ->
  (forall a a' b b', eqvK a a' -> eqvK b b' -> eqvK (a ++ b) (a' ++ b')) ->
  (forall k sc fs fs', Forall2 eqvK fs fs' -> eqvK [sem k sc fs] [sem k sc fs']) ->
  (forall k sc fs l, postk K k sc fs = Some l -> eqvK [den D dnone sem (T k sc fs)] (map (den D dnone sem) l)) ->
  forall out_solo out_stacked, check_proj K out_solo out_stacked = true -> eqvK [den D dnone sem out_solo] [den D dnone sem out_stacked].
Proof. exact check_proj_sound. Qed.
Print Assumptions C05_proj_sound.

(* non-vacuity: three tracers; the middle one has two enabled handlers and a disabled one; the last one is not subscribed *)
Definition hobs (en : bool) : hspec := {| h_reentrant := false; h_guard_skip := false; h_pred := en; h_fun := fun _ => HRet RNone |}.
Definition tr (hs : list hspec) : tracer :=
  {| t_hard_disabled := false; t_allow_reentrant := false; t_multi_thread := false; t_file_ok := true; t_propagate := false; t_handlers := hs |}.
Definition ex_stack : list tracer := [tr [hobs true]; tr [hobs true; hobs false; hobs true]; tr []].
Example C05_nonvacuous :
  stack_calls 0 ex_stack (RUser 7 false) = [(0, 0, RUser 7 false); (1, 0, RUser 7 false); (1, 2, RUser 7 false)]
  /\ filter (fun c => c_ti c =? 1) (stack_calls 0 ex_stack (RUser 7 false)) = stack_calls 1 [tr [hobs true; hobs false; hobs true]] (RUser 7 false).
Proof. vm_compute. split; reflexivity. Qed.

(* the stack as a statement about EVALUATION on the fragment (model/FragSem.v): a program instrumented for a stack of observing tracers
   is instrumented for the union of their subscriptions; what tracer i is delivered (the emissions of its events, in order, with value
   and node) is what it is delivered when it is the only tracer - for all primitive operations, stacks, source modules, environments *)
Definition union_cfg (cs : list RwFrag.rcfg) : RwFrag.rcfg := {| RwFrag.sub := fun e => existsb (fun c => RwFrag.sub c e) cs |}.
Theorem C05_frag_stack : forall binop cmpop unop truth cval is_and (cs : list RwFrag.rcfg) (c : RwFrag.rcfg) body r sv sv',
  In c cs -> forallb FragSemProofs.src_s body = true ->
  FragSem.filter_log c (FragSem.s_log (FragSem.exec_l binop cmpop unop truth cval is_and (FragSem.instr_module (union_cfg cs) body) r sv)) =
  FragSem.filter_log c (FragSem.s_log (FragSem.exec_l binop cmpop unop truth cval is_and (FragSem.instr_module c body) r sv')).
Proof.
  intros binop cmpop unop truth cval is_and cs c body r sv sv' Hin Hs.
  apply FragSemProofs.frag_projection; [exact Hs|]. intros e He. cbn. apply existsb_exists. exists c. split; assumption.
Qed.
Print Assumptions C05_frag_stack.

(* ... and with LOOPS AND FUNCTIONS (model/FragProg.v), as long as no handler of the stack touches a guard (guards in any fixed state G) *)
Theorem C05_prog_stack : forall binop cmpop unop truth cval is_and fuel (cs : list RwFrag.rcfg) (c : RwFrag.rcfg) (G : FragProg.guard -> bool) ge m d r sv sv',
  In c cs -> forallb FragProgProofs.psrc_t m = true ->
  FragSem.filter_log c (FragProg.p_log (FragProg.prun binop cmpop unop truth cval is_and (union_cfg cs) (fun _ g => G g) fuel d (FragProg.pinstr_module (union_cfg cs) ge m) r sv)) =
  FragSem.filter_log c (FragProg.p_log (FragProg.prun binop cmpop unop truth cval is_and c (fun _ g => G g) fuel d (FragProg.pinstr_module c ge m) r sv')).
Proof.
  intros binop cmpop unop truth cval is_and fuel cs c G ge m d r sv sv' Hin Hs.
  apply FragProgProofs.prog_projection; [exact Hs|]. intros e He. cbn. apply existsb_exists. exists c. split; assumption.
Qed.
Print Assumptions C05_prog_stack.
