(* C07 - leaving all tracing contexts leaves the interpreter as it was found.
   Model: model/Ctx.v.  core_eq s s' says that s' agrees with s on: the tracer stack, every tracer's enabled and
   hard-disabled flags, presence of the emit hook, presence of guard names, the owner of EXEC_SAVED_THUNK, the
   interpreter's trace function, the stack of patched sys.settrace/gettrace functions, the number of pyccolo
   finders on sys.meta_path (and the saved `existing tracer` of enabled tracers). *)
From Coq Require Import List NArith Bool Arith.
Import ListNotations.
From PyccoloV Require Import model.Ctx proofs.CtxProofs.

(* every history tree - AST-level and system-level tracers, IRaise at any position, caught at any depth or escaping
   everything - run from a state with no active context ends in a state with the same process-global fields, no
   emit hook, no guard names, no thunk/lambda helpers *)
Theorem C07_restore : forall cfg items s, Inv s -> stack s = [] -> wf_items (ntr s) items ->
  let s' := snd (fst (run_items cfg items s)) in
  core_eq s s' /\ Inv s' /\ stack s' = [] /\ emit_present s' = false /\ guards_live s' = false /\
  thunk_owner s' = None /\ lam_owner s' = None.
Proof. exact restore_general. Qed.
Print Assumptions C07_restore.

(* code compiled while tracing still runs, silently, afterwards: once any context has been entered both flags stay
   defined (C07_flags_defined), and with no context active every function / lambda / loop site takes its pristine
   branch - no delivery, no NameError *)
Theorem C07_flags_defined : forall cfg t d body rest s,
  defd (snd (fst (run_items cfg rest (snd (fst (run_item cfg (ICtx t d body) s)))))).
Proof. intros. apply defd_items. apply ctx_defines. Qed.
Print Assumptions C07_flags_defined.
Theorem C07_after : forall s k, Inv s -> stack s = [] -> defd s -> k <> KTop -> run_site s k = SPlain.
Proof. exact after_sites_plain. Qed.
Print Assumptions C07_after.

(* non-vacuity: a history with a system-level tracer, a pre-installed trace function and a raise escaping two
   contexts restores the state; calling the compiled lambda afterwards is silent *)
Definition ex_cfg (t : nat) : tcfg := {| has_sys := Nat.eqb t 0; patch_meta := true |}.
Definition ex_hist : list item := [ICtx 1 false [ISite KTop; ICtx 0 false [ISite KFunc; ICtx 1 true [IRaise]]]].
Example C07_nonvacuous :
  let s0 := init_cst 2 (TfUser 7) in
  let s' := snd (fst (run_items ex_cfg ex_hist s0)) in
  Inv s0 /\ stack s0 = [] /\ wf_items 2 ex_hist /\ fst (fst (run_items ex_cfg ex_hist s0)) = true /\
  cur_trace s' = TfUser 7 /\ settrace_patches s' = [] /\ meta_finders s' = 0 /\ run_site s' KLam = SPlain.
Proof. split; [apply init_inv|]. split; [reflexivity|]. split; [cbn; repeat split; auto; discriminate|]. vm_compute. repeat split; reflexivity. Qed.
