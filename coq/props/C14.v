(* C14 - augmented syntax marks exactly the augmented nodes.
   Model: model/Augment.v = replace_tokens_and_get_augmented_positions + fix_positions, tied to syntax_augmentation.py by
   the K-aug correspondence of ./check C14 (every replacement pass and every line of every generated source).
   The theorem is about fix_positions, the step that makes node lookup by (line, column) exact when several specs and
   occurrences share a line.  `recorded_of offs [] layout` is the ground truth of what the replacement passes record:
   for the final layout of a line (final column, spec number in application order), an occurrence of spec k is recorded
   at its column in the text right after spec k was applied, i.e. with the later-applied specs' tokens to its left still
   unreplaced.  C14_text_*: what the replacement pass does to the text that is NOT an occurrence.  Where occurrences are found and
   the parser's column conventions are decided by correspondence and oracle. *)
From Coq Require Import List ZArith NArith Bool.
Import ListNotations.
From PyccoloV Require Import model.Augment proofs.AugmentProofs.

(* for every number of specs with arbitrary length changes (shrinking or growing), every application order and every
   multiset of occurrences on a line: when sorting the recorded columns keeps the true left-to-right order, every
   corrected column is the occurrence's column in the fully transformed line *)
(* the text: replace_tokens copies what stands between tokens and inside strings, f-string literal parts and comments from the
   source.  Replacing a token by itself gives the source back for EVERY token sequence - nothing is lost, duplicated or re-spaced,
   occurrences or not; and a source in which no code token starts an occurrence comes back unchanged for any replacement, with
   nothing recorded (before the repair the text was rebuilt from token strings and blanks: tabs, form feeds, backslash
   continuations and `{{` in f-strings were damaged in files that use no token at all). *)
Theorem C14_text_self_identity : forall tok toks, fst (replace_tokens tok tok toks) = source_of toks.
Proof. exact replace_self_identity. Qed.
Print Assumptions C14_text_self_identity.
Theorem C14_text_no_occurrence : forall tok repl toks,
  (forall t, In t toks -> t_opaque t = true \/ t_text t = [] \/ prefix_of (t_text t) tok = false) ->
  replace_tokens tok repl toks = (source_of toks, []).
Proof. exact replace_no_occurrence. Qed.
Print Assumptions C14_text_no_occurrence.
(* `x\t=  a?.b # a?.b`: the tab, the two blanks and the comment survive; one occurrence at column 6 of the new text *)
Example C14_text_nonvacuous :
  let tk g x o c := {| t_gap := g; t_text := x; t_opaque := o; t_row := 1; t_col := c |} in
  replace_tokens [63; 46]%N [46]%N
    [tk [] [120]%N false 0%Z; tk [9]%N [61]%N false 2%Z; tk [32; 32]%N [97]%N false 5%Z; tk [] [63]%N false 6%Z; tk [] [46]%N false 7%Z;
     tk [] [98]%N false 8%Z; tk [32]%N [35; 32; 97; 63; 46; 98]%N true 10%Z]
  = ([120; 9; 61; 32; 32; 97; 46; 98; 32; 35; 32; 97; 63; 46; 98]%N, [(1, 6)]%Z).
Proof. vm_compute. reflexivity. Qed.

Theorem C14_cols_partial : forall offs layout,
  sort_occs (recorded_of offs [] layout) = Some (recorded_of offs [] layout) ->
  fix_line offs (recorded_of offs [] layout) = Some layout.
Proof. exact fix_line_correct. Qed.
Print Assumptions C14_cols_partial.

(* what is missing for the full statement: the side condition fails when a later-applied length-changing spec sits to the
   left of an occurrence within its shift distance: the occurrence gets a wrong column (its node is not marked) ... *)
Theorem C14_cols_refuted :
  exists offs layout,
    In (5, 0%nat)%Z layout /\
    match fix_line offs (recorded_of offs [] layout) with Some l => ~ In (5, 0%nat)%Z l | None => False end.
Proof. exact fix_line_refuted. Qed.
Print Assumptions C14_cols_refuted.
(* ... or two different specs are recorded at the same column and the sort compares the specs themselves (TypeError) *)
Theorem C14_cols_tie_refuted : exists offs layout, fix_line offs (recorded_of offs [] layout) = None.
Proof. exact fix_line_tie_refuted. Qed.
Print Assumptions C14_cols_tie_refuted.

(* non-vacuity: three specs (shrinking by 1, 2 and 1), five occurrences on a line, recorded order = true order *)
Example C14_nonvacuous :
  let offs := fun k => match k with 1%nat => 2%Z | _ => 1%Z end in
  let layout := [(4, 2%nat); (9, 0%nat); (14, 1%nat); (20, 0%nat); (26, 2%nat)]%Z in
  sort_occs (recorded_of offs [] layout) = Some (recorded_of offs [] layout) /\
  recorded_of offs [] layout = [(4, 2%nat); (10, 0%nat); (15, 1%nat); (23, 0%nat); (26, 2%nat)]%Z.
Proof. vm_compute. split; reflexivity. Qed.
