(* C14 - augmented syntax marks exactly the augmented nodes.
   Model: model/Augment.v = replace_tokens_and_get_augmented_positions + fix_positions, tied to syntax_augmentation.py by
   the K-aug correspondence of ./check C14 (every replacement pass and every line of every generated source).
   The theorem is about fix_positions, the step that makes node lookup by (line, column) exact when several specs and
   occurrences share a line.  `recorded_of offs [] layout` is the ground truth of what the replacement passes record:
   for the final layout of a line (final column, spec number in application order), an occurrence of spec k is recorded
   at its column in the text right after spec k was applied, i.e. with the later-applied specs' tokens to its left still
   unreplaced.  Text replacement itself and the parser's column conventions are decided by correspondence and oracle. *)
From Coq Require Import List ZArith NArith Bool.
Import ListNotations.
From PyccoloV Require Import model.Augment proofs.AugmentProofs.

(* for every number of specs with arbitrary length changes (shrinking or growing), every application order and every
   multiset of occurrences on a line: when sorting the recorded columns keeps the true left-to-right order, every
   corrected column is the occurrence's column in the fully transformed line *)
Theorem C14_cols_partial : forall offs layout,
  sort_occs (recorded_of offs [] layout) = Some (recorded_of offs [] layout) ->
  fix_line offs (recorded_of offs [] layout) = Some layout.
Proof. exact fix_line_correct. Qed.
Print Assumptions C14_cols_partial.

(* what is missing for the full statement: the side condition fails when a later-applied length-changing spec sits to the
   left of an occurrence within its shift distance: the occurrence gets a wrong column (its node is not marked) ... *)
Theorem C14_cols_refuted :
  exists offs layout,
    In (5, 0%nat)%Z layout /\
    match fix_line offs (recorded_of offs [] layout) with Some l => ~ In (5, 0%nat)%Z l | None => False end.
Proof. exact fix_line_refuted. Qed.
Print Assumptions C14_cols_refuted.
(* ... or two different specs are recorded at the same column and the sort compares the specs themselves (TypeError) *)
Theorem C14_cols_tie_refuted : exists offs layout, fix_line offs (recorded_of offs [] layout) = None.
Proof. exact fix_line_tie_refuted. Qed.
Print Assumptions C14_cols_tie_refuted.

(* non-vacuity: three specs (shrinking by 1, 2 and 1), five occurrences on a line, recorded order = true order *)
Example C14_nonvacuous :
  let offs := fun k => match k with 1%nat => 2%Z | _ => 1%Z end in
  let layout := [(4, 2%nat); (9, 0%nat); (14, 1%nat); (20, 0%nat); (26, 2%nat)]%Z in
  sort_occs (recorded_of offs [] layout) = Some (recorded_of offs [] layout) /\
  recorded_of offs [] layout = [(4, 2%nat); (10, 0%nat); (15, 1%nat); (23, 0%nat); (26, 2%nat)]%Z.
Proof. vm_compute. split; reflexivity. Qed.
