(* C18 - node lookup tables describe the source the handler is looking at.
   Model: model/Book.v = BookkeepingVisitor.generic_visit as the ordered list of table writes over a generic tree
   (node = statement flag, id, children each marked as sitting in a single-node field or in a list field), tied to
   ast_bookkeeping.py by the K-book correspondence of ./check C18 (every node of every exported tree).
   cs_lookup / ps_lookup replay the writes (setdefault / assignment) exactly as the dictionaries do. *)
From Coq Require Import List NArith Bool.
Import ListNotations.
From PyccoloV Require Import model.Book proofs.BookProofs.

(* the containing statement really contains the node: it is a statement of the tree and the node lies in its sub-tree *)
Theorem C18_contains : forall t k s, wf t -> cs_lookup (visit None t) k None = Some s -> contains t s k.
Proof. exact containing_stmt_contains. Qed.
Print Assumptions C18_contains.

(* the parent statement is a statement of the tree that properly contains the node *)
Theorem C18_parent : forall t k p, ps_lookup (visit None t) k None = Some p -> properly_contains t p k.
Proof. exact parent_stmt_contains. Qed.
Print Assumptions C18_parent.

(* every node of the tree is entered in ast_node_by_id under its own id *)
Theorem C18_node : forall t cur n, In n (nodes t) -> In (WNode (nid n)) (visit cur t).
Proof. exact every_node_registered. Qed.
Print Assumptions C18_node.

(* the write-level statements behind the two lookups (for every inherited `current statement`) *)
Theorem C18_tables : forall n cur w k s, wf n -> In w (visit cur n) -> cs_write w = Some (k, s) ->
  (cur = Some s /\ exists K, In K (nodes n) /\ nid K = k) \/ contains n s k.
Proof. exact cs_writes_ok. Qed.
Print Assumptions C18_tables.

(* non-vacuity: `@deco def g(): a = 1; return a` then `try: x = 1 except E: y = 2`
   0 Module [1 FunctionDef [2 Assign [3 Name; 4 Const]; 5 Return [6 Name]; 7 deco Name]; 8 Try [9 Assign; 10 handler [11 E; 12 Assign]]] *)
Local Open Scope N_scope.
Definition ex_tree : node :=
  Nd false 0 [(true, Nd true 1 [(true, Nd true 2 [(true, Nd false 3 []); (false, Nd false 4 [])]);
                                (true, Nd true 5 [(false, Nd false 6 [])]); (true, Nd false 7 [])]);
              (true, Nd true 8 [(true, Nd true 9 []); (true, Nd false 10 [(false, Nd false 11 []); (true, Nd true 12 [])])])].
Example C18_nonvacuous :
  wf ex_tree /\
  cs_lookup (visit None ex_tree) 7 None = Some 1 /\       (* the decorator belongs to the def, not to `return a` *)
  cs_lookup (visit None ex_tree) 11 None = Some 8 /\      (* the handler type belongs to the try *)
  ps_lookup (visit None ex_tree) 12 None = Some 8 /\      (* the statement in the except body has the try as parent *)
  ps_lookup (visit None ex_tree) 1 None = None.           (* module-level statements have no parent statement *)
Proof. split; [cbn; repeat split; auto; discriminate|]. vm_compute. repeat split; reflexivity. Qed.
