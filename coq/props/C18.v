(* C18 - node lookup tables describe the source the handler is looking at.
   Model: model/Book.v = BookkeepingVisitor.generic_visit as the ordered list of table writes over a generic tree
   (node = statement flag, id, children each marked as sitting in a single-node field or in a list field), tied to
   ast_bookkeeping.py by the K-book correspondence of ./check C18 (every node of every exported tree).
   cs_lookup / ps_lookup replay the writes (setdefault / assignment) exactly as the dictionaries do. *)
From Coq Require Import List NArith Bool.
Import ListNotations.
From PyccoloV Require Import model.Book proofs.BookProofs proofs.BookExact.
From PyccoloV Require Import gen.BookOrder model.BookHist proofs.BookHistProofs.

(* the containing statement really contains the node: it is a statement of the tree and the node lies in its sub-tree *)
Theorem C18_contains : forall t k s, wf t -> cs_lookup (visit None t) k None = Some s -> contains t s k.
Proof. exact containing_stmt_contains. Qed.
Print Assumptions C18_contains.

(* the parent statement is a statement of the tree that properly contains the node *)
Theorem C18_parent : forall t k p, ps_lookup (visit None t) k None = Some p -> properly_contains t p k.
Proof. exact parent_stmt_contains. Qed.
Print Assumptions C18_parent.

(* every node of the tree is entered in ast_node_by_id under its own id *)
Theorem C18_node : forall t cur n, In n (nodes t) -> In (WNode (nid n)) (visit cur t).
Proof. exact every_node_registered. Qed.
Print Assumptions C18_node.

(* the write-level statements behind the two lookups (for every inherited `current statement`) *)
Theorem C18_tables : forall n cur w k s, wf n -> In w (visit cur n) -> cs_write w = Some (k, s) ->
  (cur = Some s /\ exists K, In K (nodes n) /\ nid K = k) \/ contains n s k.
Proof. exact cs_writes_ok. Qed.
Print Assumptions C18_tables.

(* EXACTNESS ("its parent statement and outer-statement classification agree with the lexical structure"): `lexp` is the lexical
   definition - the nearest proper ancestor that is a statement, by one recursive descent that remembers the last statement passed.
   For every tree in which statements only sit in list fields and node ids are distinct, and for every statement of it (the root
   included): the table's entry IS the lexical parent statement, and there is no entry exactly when no statement encloses it. *)
Theorem C18_parent_exact : forall t, wf t -> NoDup (ids t) -> forall K, In K (nodes t) -> nstmt K = true ->
  ps_lookup (visit None t) (nid K) None = joinp (lexp None t (nid K)).
Proof. exact ps_lookup_exact. Qed.
Print Assumptions C18_parent_exact.

(* stmt_only_has_ancestor_types (is_outer_stmt, is_initial_frame_stmt): walking up the parent-statement TABLE while the types are allowed
   gives the answer that walking up the LEXICAL parents gives, for every assignment of types to nodes, every set of allowed types, every
   statement and every number of steps *)
Theorem C18_outer_exact : forall (ty : N -> N) (allowed : N -> bool) t, wf t -> NoDup (ids t) ->
  forall K, In K (nodes t) -> nstmt K = true -> forall fuel,
  only_allowed_tbl ty allowed t (nid K) fuel = only_allowed_lex ty allowed t (nid K) fuel.
Proof. exact outer_exact. Qed.
Print Assumptions C18_outer_exact.

(* ... and for ANY node the library is asked about (a decorator, a class base, an assignment target, a with-item, an except handler: nodes
   that have entries of their own in the parent-statement table, pointing at their own statement): the query starts from the node's
   containing statement, which is a statement of the tree that contains the node, and answers as the lexical walk from that statement does *)
Theorem C18_outer_any_node : forall (ty : N -> N) (allowed : N -> bool) t, wf t -> NoDup (ids t) ->
  forall k s, cs_lookup (visit None t) k None = Some s -> forall fuel,
  contains t s k /\ only_allowed_node ty allowed t k fuel = only_allowed_lex ty allowed t s fuel.
Proof. exact outer_node_exact. Qed.
Print Assumptions C18_outer_any_node.

(* histories of instrumentations (exec, decorator, import; the same path again; other paths): model/BookHist.v.  gen/BookOrder.v
   is REGENERATED from AstRewriter.visit on every run and says in which order the old bookkeeper of a path is removed and the new
   one added.  For every history whose new nodes are live objects not yet in the tables (`hist_fresh`), and for every bookkeeper
   whose code can still run (the latest whole-module instrumentation of a path and every single-function instrumentation of it
   since): all its node ids are in the tables and the line table of its module maps each of its lines to its own statement. *)
Theorem C18_history : forall gc ops, hist_fresh gc ops st0 ->
  forall q b, In b (valid (BookHist.run book_remove_first book_remove_old_mid gc ops st0) q) ->
    (forall k, In k (b_ids b) -> gn (BookHist.run book_remove_first book_remove_old_mid gc ops st0) k = true) /\
    (forall l, has_line l (b_lines b) = true -> gl (BookHist.run book_remove_first book_remove_old_mid gc ops st0) (b_mid b) l = lookup l (b_lines b) None).
Proof. intros gc ops HF q b Hb. exact (history_entries_valid gc ops st0 inv0 HF q b Hb). Qed.
Print Assumptions C18_history.
(* `hist_fresh` assumes of every new bookkeeper that its module id is not the key of a line table still in use.  That was an
   assumption the code did not meet (the key was the address of the tree handed to the rewriter, which dies after compilation:
   a later tree at the same address merged its lines into the old table - finding C18-line-tables-merge, fixed).  The key is now
   the id of the registered copy of the tree, one of the bookkeeper's OWN nodes (gen/BookOrder.v: book_mid_is_registered_node,
   checked per instrumentation by K-hist), and the assumption follows from what remains: the new nodes are live objects that are
   not in the tables yet. *)
Theorem C18_history_own_keys : forall gc ops, book_mid_is_registered_node = true -> hist_fresh_ids gc ops st0 ->
  forall q b, In b (valid (BookHist.run book_remove_first book_remove_old_mid gc ops st0) q) ->
    (forall k, In k (b_ids b) -> gn (BookHist.run book_remove_first book_remove_old_mid gc ops st0) k = true) /\
    (forall l, has_line l (b_lines b) = true -> gl (BookHist.run book_remove_first book_remove_old_mid gc ops st0) (b_mid b) l = lookup l (b_lines b) None).
Proof. intros gc ops _ HF q b Hb. exact (history_entries_valid_ids gc ops HF q b Hb). Qed.
Print Assumptions C18_history_own_keys.

(* the other order, kept as a checked witness: a file instrumented twice loses the lines both versions share *)
Theorem C18_remove_after_add_refuted :
  let b1 := {| b_mid := 1; b_ids := [10; 11]; b_lines := [(1, 11)] |}%N in
  let b2 := {| b_mid := 2; b_ids := [20; 21]; b_lines := [(1, 21)] |}%N in
  let s := BookHist.run false false true [ {| o_path := 0%N; o_kind := KModule; o_bk := b1 |}; {| o_path := 0%N; o_kind := KModule; o_bk := b2 |} ] st0 in
  valid s 0%N = [b2] /\ gl s 2%N 1%N = None.
Proof. exact remove_after_add_refuted. Qed.
Print Assumptions C18_remove_after_add_refuted.

Example C18_history_nonvacuous :
  let b1 := {| b_mid := 10; b_ids := [10; 11]; b_lines := [(1, 11)] |}%N in
  let b2 := {| b_mid := 20; b_ids := [20; 21]; b_lines := [(1, 21)] |}%N in
  let ops := [ {| o_path := 0%N; o_kind := KModule; o_bk := b1 |}; {| o_path := 0%N; o_kind := KModule; o_bk := b2 |} ] in
  hist_fresh_ids true ops st0 /\ hist_fresh true ops st0 /\ valid (BookHist.run book_remove_first book_remove_old_mid true ops st0) 0%N = [b2].
Proof.
  cbn zeta.
  assert (H : hist_fresh_ids true
    [ {| o_path := 0%N; o_kind := KModule; o_bk := {| b_mid := 10; b_ids := [10; 11]; b_lines := [(1, 11)] |}%N |};
      {| o_path := 0%N; o_kind := KModule; o_bk := {| b_mid := 20; b_ids := [20; 21]; b_lines := [(1, 21)] |}%N |} ] st0).
  { cbn [hist_fresh_ids]. split; [|split; [|exact I]].
    - split; [intros k _; reflexivity|now left].
    - split; [|now left]. intros k Hk. cbn in Hk. destruct Hk as [<-|[<-|[]]]; reflexivity. }
  split; [exact H|]. split; [|reflexivity].
  apply hist_fresh_of_ids; [exact inv0|intros q b []|exact H].
Qed.

(* non-vacuity: `@deco def g(): a = 1; return a` then `try: x = 1 except E: y = 2`
   0 Module [1 FunctionDef [2 Assign [3 Name; 4 Const]; 5 Return [6 Name]; 7 deco Name]; 8 Try [9 Assign; 10 handler [11 E; 12 Assign]]] *)
Local Open Scope N_scope.
Definition ex_tree : node :=
  Nd false 0 [(true, Nd true 1 [(true, Nd true 2 [(true, Nd false 3 []); (false, Nd false 4 [])]);
                                (true, Nd true 5 [(false, Nd false 6 [])]); (true, Nd false 7 [])]);
              (true, Nd true 8 [(true, Nd true 9 []); (true, Nd false 10 [(false, Nd false 11 []); (true, Nd true 12 [])])])].
Example C18_nonvacuous :
  wf ex_tree /\
  cs_lookup (visit None ex_tree) 7 None = Some 1 /\       (* the decorator belongs to the def, not to `return a` *)
  cs_lookup (visit None ex_tree) 11 None = Some 8 /\      (* the handler type belongs to the try *)
  ps_lookup (visit None ex_tree) 12 None = Some 8 /\      (* the statement in the except body has the try as parent *)
  ps_lookup (visit None ex_tree) 1 None = None.           (* module-level statements have no parent statement *)
Proof. split; [cbn; repeat split; auto; discriminate|]. vm_compute. repeat split; reflexivity. Qed.
Example C18_exact_nonvacuous :
  NoDup (ids ex_tree) /\ joinp (lexp None ex_tree 12) = Some 8 /\ joinp (lexp None ex_tree 1) = None /\
  only_allowed_lex (fun _ => 0) (fun _ => true) ex_tree 12 5 = true /\ only_allowed_lex (fun _ => 0) (fun _ => false) ex_tree 12 5 = false.
Proof. split; [repeat constructor; cbn; intuition discriminate|]. vm_compute. repeat split; reflexivity. Qed.
