(* C20 - trace stacks restore every registered field in strict LIFO order.
   Property theorems only; each is closed by `exact <lemma of proofs/StackProofs.v>`.
   Model: model/Stack.v (transcription of pyccolo/trace_stack.py over pure values), tied to the code by the
   K-stack correspondence run by ./check C20.
   Vocabulary: ds = the registrations of all stacks of a tracer; wf ds = field names of one stack are pairwise
   distinct and a stack is not registered with itself (decidable: wf_b; holds of every declaration whose
   attribute names are distinct, checked on every generated declaration);
   wn B = B is a well-nested block of operations (mutations, reads, and matched push..pop pairs of any stacks);
   all_ok = no operation raised. *)
From Coq Require Import List ZArith NArith Bool.
Import ListNotations.
From PyccoloV Require Import model.Stack proofs.StackProofs.

(* LIFO discipline: a well-nested block leaves the saved frames of EVERY stack attribute as they were
   (nested stacks included: an outer push installs a fresh clone, the matching pop puts the original back). *)
Theorem C20_frames_preserved : forall ds, wf ds -> forall B, wn B -> forall m m' rs,
  run ds m B = (m', rs) -> all_ok rs = true -> forall s, frames_of m' s = frames_of m s.
Proof. exact frames_preserved. Qed.
Print Assumptions C20_frames_preserved.

(* push saves the current values of all registered fields and resets: auto-initialised fields get their declared
   initial value (run_init: the declared scalar, a new empty container, a new empty nested stack), manually
   initialised ones are removed, nothing else changes. *)
Theorem C20_push_resets : forall ds, wf ds -> forall s m m' r, step ds m (OPush s) = (m', r) -> is_err r = false ->
  exists d fr t, decl_of ds s = Some d /\ frames_of m s = Some fr /\ get_all m (names d) = Some t /\
    frames_of m' s = Some (fr ++ [t]) /\
    (forall f i, In (f, i) (auto d) -> dget m' f = Some (run_init i)) /\
    (forall f, In f (manual d) -> dget m' f = None) /\
    (forall g, g <> s -> ~ In g (names d) -> dget m' g = dget m g).
Proof. exact push_resets. Qed.
Print Assumptions C20_push_resets.

(* each pop restores exactly the values saved by the matching push, whatever well-nested activity lies between *)
Theorem C20_push_pop_restores : forall ds, wf ds -> forall s B, wn B -> forall m m' rs,
  run ds m (OPush s :: B ++ [OPop s]) = (m', rs) -> all_ok rs = true ->
  exists d, decl_of ds s = Some d /\
    (forall f, In f (names d) -> dget m' f = dget m f) /\ frames_of m' s = frames_of m s.
Proof. exact push_pop_restores. Qed.
Print Assumptions C20_push_pop_restores.

(* fields can be read at any depth: depth 1 is the value before the latest unmatched push ... *)
Theorem C20_read_depth_1 : forall ds, wf ds -> forall s B, wn B -> forall m m1 rs g,
  run ds m (OPush s :: B) = (m1, rs) -> all_ok rs = true ->
  forall d, decl_of ds s = Some d -> In g (names d) ->
  exists v, dget m g = Some v /\ step ds m1 (ORead s g (-1)) = (m1, OutVal v).
Proof. exact read_depth_1. Qed.
Print Assumptions C20_read_depth_1.

(* ... and depth k+1 after a push is depth k before it (so by induction every depth is characterised) *)
Theorem C20_read_deeper : forall ds, wf ds -> forall s B, wn B -> forall m m1 rs g k,
  run ds m (OPush s :: B) = (m1, rs) -> all_ok rs = true -> (1 <= k)%nat ->
  snd (step ds m1 (ORead s g (- Z.of_nat (S k)))) = snd (step ds m (ORead s g (- Z.of_nat k))).
Proof. exact read_deeper. Qed.
Print Assumptions C20_read_deeper.

(* clearing returns the tracer to the values it had before the first push *)
Theorem C20_clear_restores : forall ds, wf ds -> forall s P, pushes s P -> forall m m' rs,
  run ds m P = (m', rs) -> all_ok rs = true -> frames_of m s = Some [] ->
  exists d m'', decl_of ds s = Some d /\ step ds m' (OClear s) = (m'', Done) /\
    frames_of m'' s = Some [] /\ (forall f, In f (names d) -> dget m'' f = dget m f).
Proof. exact clear_restores. Qed.
Print Assumptions C20_clear_restores.

(* registration: exactly the attributes assigned inside a register_stack_state block are saved and restored *)
Theorem C20_registers_every_field : forall items f,
  In f (names (block_decl items)) <-> In f (map fst (flat_map collect items)).
Proof. exact registers_every_field. Qed.
Print Assumptions C20_registers_every_field.

(* ---- non-vacuity: a nested declaration (plain value, container, manual field, nested stack) is well formed,
   and a well-nested run with an inner push/pop inside an outer one succeeds and restores. *)
Local Open Scope N_scope.
Definition ex_tops : list item :=
  [DStack 1 [DField 2 (VInt 0) None; DField 3 (VCont 0 []) None; DField 6 (VStr 1) (Some 1);
             DStack 4 [DField 5 (VInt 7) None]]].
Definition ex_block : list op :=
  [OSet 2 (VInt 5); OAppend 3 11%Z; OSet 6 (VStr 2); OPushCheck 1; OPush 4; OSet 5 (VInt 9); OPop 4; ORead 1 2 (-1)%Z].
Example C20_nonvacuous :
  wf (init_decls ex_tops) /\ wn ex_block /\
  all_ok (snd (run (init_decls ex_tops) (init_mgr ex_tops) (OPush 1 :: ex_block ++ [OPop 1]))) = true /\
  dget (fst (run (init_decls ex_tops) (init_mgr ex_tops) (OPush 1 :: ex_block))) 3 = Some (VCont 0 [11%Z]).
Proof.
  split; [apply wf_b_sound; vm_compute; reflexivity|].
  split; [|split; vm_compute; reflexivity].
  unfold ex_block. repeat (apply wn_mut; [reflexivity|]).
  apply (wn_pair 4 [OSet 5 (VInt 9)] [ORead 1 2 (-1)%Z]); repeat (apply wn_mut; [reflexivity|]); constructor.
Qed.

(* ... with a container that holds mutable containers (`{"load": [], "store": []}`, `[["root"]]`): the copy a push hands out is DEEP - an
   in-place change of an inner list at one level (OAppendIn) shows neither in the value later pushes reset the field to nor in the saved frames *)
Definition ex_nest : list item := [DStack 1 [DField 2 (VNest 0 [[1%Z]; []]) None]].
Definition ex_nest_block : list op := [OAppendIn 2 0 9%Z; OPush 1; OAppendIn 2 1 5%Z; ORead 1 2 (-1)%Z; OPop 1; ORead 1 2 (-1)%Z].
Example C20_nested_nonvacuous :
  wf (init_decls ex_nest) /\ wn ex_nest_block /\
  snd (run (init_decls ex_nest) (init_mgr ex_nest) (OPush 1 :: ex_nest_block ++ [OPop 1])) =
    [Done; Done; Done; Done; OutVal (VNest 0 [[1%Z; 9%Z]; []]); Done; OutVal (VNest 0 [[1%Z]; []]); Done] /\
  dget (fst (run (init_decls ex_nest) (init_mgr ex_nest) (OPush 1 :: ex_nest_block))) 2 = Some (VNest 0 [[1%Z; 9%Z]; []]) /\
  dget (fst (run (init_decls ex_nest) (init_mgr ex_nest) [OPush 1; OAppendIn 2 0 9%Z; OPush 1])) 2 = Some (VNest 0 [[1%Z]; []]).
Proof.
  split; [apply wf_b_sound; vm_compute; reflexivity|].
  split; [|repeat split; vm_compute; reflexivity].
  unfold ex_nest_block. apply wn_mut; [reflexivity|].
  apply (wn_pair 1 [OAppendIn 2 1 5%Z; ORead 1 2 (-1)%Z] [ORead 1 2 (-1)%Z]); repeat (apply wn_mut; [reflexivity|]); constructor.
Qed.
