(* C13 - cached bytecode never crosses between plain and instrumented imports.
   model/Import.v (part 2): the cache of one module over a history of processes - cache file naming by the configuration
   signature (class names + digest of subscribed events and guard setting; the ordinary name for stock compiles),
   importlib's validate-or-recompile-and-write algorithm, and exec_module's pickled node table (read only for code that came
   from the cache, written whenever the module was compiled in the process, cached code without table not used).
   ./check C13 runs enumerated histories of real processes (plain / tracer configurations, writable / read-only / no-write,
   source edits) over one package directory and compares each process with the same process on a fresh directory (the
   property) and with run / the cache file set predicted by the model in coqc (the tie). *)
From Coq Require Import List NArith Bool.
Import ListNotations.
From PyccoloV Require Import model.Import proofs.ImportProofs.

(* every process of every history - any sequence of plain and traced imports under any configurations, with caching allowed
   or not, the cache writable or not, the source edited between any two processes - observes exactly what it would observe
   on an empty cache (its own configuration's code, compiled from the current source, with the node table of that very
   compilation), PROVIDED the configurations of the history that share a cache name are the same configuration *)
Theorem C13_fresh_partial : forall ps, faithful (map p_who ps) -> run fs0 ps = map fresh_obs ps.
Proof. exact history_fresh. Qed.
Print Assumptions C13_fresh_partial.
(* ... from any cache state reachable that way *)
Theorem C13_fresh_from : forall ws, faithful ws -> forall ps s, Forall (fun p => In (p_who p) ws) ps -> Inv ws s ->
  run s ps = map fresh_obs ps.
Proof. exact run_fresh. Qed.
Print Assumptions C13_fresh_from.
(* the ordinary cache name is used by stock compiles only: plain and instrumented code never share an entry *)
Theorem C13_plain_name : forall w, name_of w = [] -> w = [].
Proof. exact plain_name_only_stock. Qed.
Print Assumptions C13_plain_name.
(* without the proviso the statement is false: what the signature does not cover (static node conditions, node-table
   setting of a like-named class with the same events) crosses (recorded finding) *)
Theorem C13_fresh_refuted : exists ps, run fs0 ps <> map fresh_obs ps.
Proof. exact fresh_refuted. Qed.
Print Assumptions C13_fresh_refuted.

(* non-vacuity: plain, tracer A (keeps a node table), plain, source edit + A without write permission, A again, B *)
Local Open Scope N_scope.
Definition A : who := [(1, 11, (0, true))].
Definition B : who := [(2, 22, (0, false))].
Definition P (w : who) (wr ed : bool) : proc := {| p_who := w; p_caching := true; p_write := wr; p_edit := ed; p_raises := false |}.
Definition ex_hist : list proc := [P [] true false; P A true false; P [] true false; P A false true; P A true false; P B true false; P A true false].
Example C13_nonvacuous : faithful (map p_who ex_hist) /\ run fs0 ex_hist = map fresh_obs ex_hist /\ length ex_hist = 7%nat.
Proof.
  split; [|split; [vm_compute; reflexivity|reflexivity]].
  intros w1 w2 H1 H2. cbn in H1, H2.
  repeat (destruct H1 as [<-|H1]); try (destruct H1); repeat (destruct H2 as [<-|H2]); try (destruct H2); cbn; intros E; try reflexivity; discriminate.
Qed.
