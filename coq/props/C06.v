(* C06 - a tracer's handlers fire exactly while its own innermost context says enabled.
   Model: model/Ctx.v (tracing_non_context, the cleanup callback, _enable_tracing/_disable_tracing, and the guard tests
   that rewritten top-level / function / lambda / loop-in-function code performs when it runs), tied to tracer.py by
   the K-ctx correspondence of ./check C06.
   Reference (the property): spec_items keeps, per tracer, a stack of booleans (one per context entered for it;
   exec-style contexts copy the top); a site executed at any moment is delivered to tracer t iff that stack is
   non-empty and its top is True.  Histories are trees (ICtx / IExec / ISite / IRaise / ITry), so they are well nested
   by construction, and IRaise makes every enclosing context exit through its `finally` path. *)
From Coq Require Import List NArith Bool Arith.
Import ListNotations.
From PyccoloV Require Import model.Ctx proofs.CtxProofs.

(* for every history tree over any number of tracers (AST-level and system-level), every kind of site, from any
   state satisfying the invariant: whether an exception escapes and, for every site executed, the set of tracers
   whose handlers run, are exactly what the stack-of-booleans reference says *)
Theorem C06_delivery : forall cfg items s sp, Inv s -> Rel s sp -> wf_items (ntr s) items ->
  let '(r, s', lg) := run_items cfg items s in
  let '(r2, lg2) := spec_items items sp in
  r = r2 /\ view_log (ntr s) lg = lg2.
Proof. exact delivery_general. Qed.
Print Assumptions C06_delivery.

(* the hypotheses hold of a fresh process (any number of tracers, any pre-installed trace function) *)
Theorem C06_initial : forall n pre, Inv (init_cst n pre) /\ Rel (init_cst n pre) (init_spec n).
Proof. intros; split; [apply init_inv|apply init_rel]. Qed.
Print Assumptions C06_initial.

(* non-vacuity + the history that used to fail: outer tracer 1 keeps receiving function-body events after inner
   tracer 0 has come and gone; nothing is delivered inside tracer 1's disabled context *)
Definition ex_cfg (t : nat) : tcfg := {| has_sys := Nat.eqb t 0; patch_meta := true |}.
Definition ex_hist : list item :=
  [ICtx 1 false [ICtx 0 false [ISite KFunc]; ISite KFunc; ICtx 1 true [ISite KLoopInFunc; ITry [ICtx 0 false [IRaise]]]; ISite KLam]].
Example C06_nonvacuous :
  wf_items 2 ex_hist /\
  view_log 2 (snd (run_items ex_cfg ex_hist (init_cst 2 (TfUser 7)))) =
    [(KFunc, [true; true]); (KFunc, [false; true]); (KLoopInFunc, [false; false]); (KLam, [false; true])].
Proof. split; [cbn; repeat split; auto; discriminate|vm_compute; reflexivity]. Qed.
