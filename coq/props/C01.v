(* C01 - no-op instrumentation never changes what the program does.
   What is proved here (L1 + L2a of DESIGN 3.4):
   * `check_erase src out` is an executable certificate check on the REAL rewriter output `out` of a program `src`
     (both exported from CPython ASTs): it erases every emit site, guard, fallback and thunk scaffold bottom-up,
     checking that the pristine copies in guard-off / fallback branches agree with the instrumented branches, and
     compares the result with the source after the three deliberate source changes (norm).
   * C01_erase_sound: for EVERY semantics of Python ASTs (D, sem) and every observational equivalence eqvl that satisfy
     the listed laws - non-interference of constructs (sem_cong), one validity law per instrumentation shape, and the
     norm law - a passed check implies that the rewritten program is equivalent to the source.
   ./check C01 evaluates check_erase in coqc (vm_compute) on every generated program x event subset x guard setting:
   each `true` is a machine-checked certificate for that program.  The laws are facts about CPython; they are
   validated by the differential oracle (plain exec vs instrumented exec), not proved. *)
From Coq Require Import List ZArith NArith Bool.
Import ListNotations.
From PyccoloV Require Import gen.PyAst model.Tree model.Erase proofs.EraseSound.

Theorem C01_erase_sound :
  forall (D : Type) (dnone : D) (sem : N -> list scalar -> list (list D) -> D) (eqvl : list D -> list D -> Prop),
  (forall l, eqvl l l) ->
  (forall a b c, eqvl a b -> eqvl b c -> eqvl a c) ->
  (forall a a' b b', eqvl a a' -> eqvl b b' -> eqvl (a ++ b) (a' ++ b')) ->
  (forall k sc fs fs', Forall2 eqvl fs fs' -> eqvl [sem k sc fs] [sem k sc fs']) ->
  (forall sc fs l, post kCall sc fs = Some l -> eqvl [den D dnone sem (T kCall sc fs)] (map (den D dnone sem) l)) ->
  (forall sc fs l, post kIfExp sc fs = Some l -> eqvl [den D dnone sem (T kIfExp sc fs)] (map (den D dnone sem) l)) ->
  (forall sc fs l, post kIf sc fs = Some l -> eqvl [den D dnone sem (T kIf sc fs)] (map (den D dnone sem) l)) ->
  (forall sc fs l, post kTry sc fs = Some l -> eqvl [den D dnone sem (T kTry sc fs)] (map (den D dnone sem) l)) ->
  (forall sc fs l, post kExpr sc fs = Some l -> eqvl [den D dnone sem (T kExpr sc fs)] (map (den D dnone sem) l)) ->
  (forall sc fs l, post kSubscript sc fs = Some l -> eqvl [den D dnone sem (T kSubscript sc fs)] (map (den D dnone sem) l)) ->
  (forall t, eqvl [den D dnone sem (norm t)] [den D dnone sem t]) ->
  forall src out, check_erase src out = true -> eqvl [den D dnone sem out] [den D dnone sem src].
Proof. exact check_erase_sound. Qed.
Print Assumptions C01_erase_sound.

(* the general form: whatever erase returns is equivalent to its input (used for sub-terms and by C08 / C10) *)
Theorem C01_erase_any :
  forall (D : Type) (dnone : D) (sem : N -> list scalar -> list (list D) -> D) (eqvl : list D -> list D -> Prop),
  (forall l, eqvl l l) ->
  (forall a b c, eqvl a b -> eqvl b c -> eqvl a c) ->
  (forall a a' b b', eqvl a a' -> eqvl b b' -> eqvl (a ++ b) (a' ++ b')) ->
  (forall k sc fs fs', Forall2 eqvl fs fs' -> eqvl [sem k sc fs] [sem k sc fs']) ->
  (forall sc fs l, post kCall sc fs = Some l -> eqvl [den D dnone sem (T kCall sc fs)] (map (den D dnone sem) l)) ->
  (forall sc fs l, post kIfExp sc fs = Some l -> eqvl [den D dnone sem (T kIfExp sc fs)] (map (den D dnone sem) l)) ->
  (forall sc fs l, post kIf sc fs = Some l -> eqvl [den D dnone sem (T kIf sc fs)] (map (den D dnone sem) l)) ->
  (forall sc fs l, post kTry sc fs = Some l -> eqvl [den D dnone sem (T kTry sc fs)] (map (den D dnone sem) l)) ->
  (forall sc fs l, post kExpr sc fs = Some l -> eqvl [den D dnone sem (T kExpr sc fs)] (map (den D dnone sem) l)) ->
  (forall sc fs l, post kSubscript sc fs = Some l -> eqvl [den D dnone sem (T kSubscript sc fs)] (map (den D dnone sem) l)) ->
  forall t l, erase t = Some l -> eqvl [den D dnone sem t] (map (den D dnone sem) l).
Proof. exact erase_sound. Qed.
Print Assumptions C01_erase_any.

(* non-vacuity: the laws are satisfiable - the trivial semantics (one denotation) satisfies all of them - and the
   check really computes: `x = EMIT("after_assign_rhs", <id>, ret=7, guards_by_handler_spec_id=None)` erases to `x = 7` *)
Local Open Scope N_scope.
Definition ex_src : tree :=
  T kModule [] [[T kAssign [SNone] [[T kName [SId 100] [[T kStore [] []]]]; [T kConstant [SInt 7%Z; SNone] []]]]; []].
Definition ex_out : tree :=
  T kModule [] [[T kAssign [SNone] [[T kName [SId 100] [[T kStore [] []]]];
     [T kCall [] [[T kName [SId 1] [[T kLoad [] []]]]; [T kConstant [SStr 1090; SNone] []; T kConstant [SNid 3; SNone] []];
                  [T kkeyword [SId 6] [[T kConstant [SInt 7%Z; SNone] []]]; T kkeyword [SId 7] [[T kConstant [SNone; SNone] []]]]]]]]; []].
Example C01_nonvacuous : check_erase ex_src ex_out = true /\ check_erase ex_src ex_src = true.
Proof. vm_compute. split; reflexivity. Qed.
