(* C01 - no-op instrumentation never changes what the program does.
   What is proved here (L1 + L2a of DESIGN 3.4):
   * `check_erase src out` is an executable certificate check on the REAL rewriter output `out` of a program `src`
     (both exported from CPython ASTs): it erases every emit site, guard, fallback and thunk scaffold bottom-up,
     checking that the pristine copies in guard-off / fallback branches agree with the instrumented branches, and
     compares the result with the source after the three deliberate source changes (norm).
   * C01_erase_sound: for EVERY semantics of Python ASTs (D, sem) and every observational equivalence eqvl that satisfy
     the listed laws - non-interference of constructs (sem_cong), one validity law per instrumentation shape, and the
     norm law - a passed check implies that the rewritten program is equivalent to the source.
   ./check C01 evaluates check_erase in coqc (vm_compute) on every generated program x event subset x guard setting:
   each `true` is a machine-checked certificate for that program.  The laws are facts about CPython; they are
   validated by the differential oracle (plain exec vs instrumented exec), not proved. *)
From Coq Require Import List ZArith NArith Bool.
Import ListNotations.
From PyccoloV Require Import gen.PyAst gen.Events model.Tree model.Erase model.RwFrag proofs.EraseSound proofs.RwFragProofs.

Theorem C01_erase_sound :
  forall (D : Type) (dnone : D) (sem : N -> list scalar -> list (list D) -> D) (eqvl : list D -> list D -> Prop),
  (forall l, eqvl l l) ->
  (forall a b c, eqvl a b -> eqvl b c -> eqvl a c) ->
  (forall a a' b b', eqvl a a' -> eqvl b b' -> eqvl (a ++ b) (a' ++ b')) ->
  (forall k sc fs fs', Forall2 eqvl fs fs' -> eqvl [sem k sc fs] [sem k sc fs']) ->
  (forall sc fs l, post kCall sc fs = Some l -> eqvl [den D dnone sem (T kCall sc fs)] (map (den D dnone sem) l)) ->
  (forall sc fs l, post kIfExp sc fs = Some l -> eqvl [den D dnone sem (T kIfExp sc fs)] (map (den D dnone sem) l)) ->
  (forall sc fs l, post kIf sc fs = Some l -> eqvl [den D dnone sem (T kIf sc fs)] (map (den D dnone sem) l)) ->
  (forall sc fs l, post kTry sc fs = Some l -> eqvl [den D dnone sem (T kTry sc fs)] (map (den D dnone sem) l)) ->
  (forall sc fs l, post kExpr sc fs = Some l -> eqvl [den D dnone sem (T kExpr sc fs)] (map (den D dnone sem) l)) ->
  (forall sc fs l, post kSubscript sc fs = Some l -> eqvl [den D dnone sem (T kSubscript sc fs)] (map (den D dnone sem) l)) ->
  (forall t, eqvl [den D dnone sem (norm t)] [den D dnone sem t]) ->
  forall src out, check_erase src out = true -> eqvl [den D dnone sem out] [den D dnone sem src].
Proof. exact check_erase_sound. Qed.
Print Assumptions C01_erase_sound.

(* the general form: whatever erase returns is equivalent to its input (used for sub-terms and by C08 / C10) *)
Theorem C01_erase_any :
  forall (D : Type) (dnone : D) (sem : N -> list scalar -> list (list D) -> D) (eqvl : list D -> list D -> Prop),
  (forall l, eqvl l l) ->
  (forall a b c, eqvl a b -> eqvl b c -> eqvl a c) ->
  (forall a a' b b', eqvl a a' -> eqvl b b' -> eqvl (a ++ b) (a' ++ b')) ->
  (forall k sc fs fs', Forall2 eqvl fs fs' -> eqvl [sem k sc fs] [sem k sc fs']) ->
  (forall sc fs l, post kCall sc fs = Some l -> eqvl [den D dnone sem (T kCall sc fs)] (map (den D dnone sem) l)) ->
  (forall sc fs l, post kIfExp sc fs = Some l -> eqvl [den D dnone sem (T kIfExp sc fs)] (map (den D dnone sem) l)) ->
  (forall sc fs l, post kIf sc fs = Some l -> eqvl [den D dnone sem (T kIf sc fs)] (map (den D dnone sem) l)) ->
  (forall sc fs l, post kTry sc fs = Some l -> eqvl [den D dnone sem (T kTry sc fs)] (map (den D dnone sem) l)) ->
  (forall sc fs l, post kExpr sc fs = Some l -> eqvl [den D dnone sem (T kExpr sc fs)] (map (den D dnone sem) l)) ->
  (forall sc fs l, post kSubscript sc fs = Some l -> eqvl [den D dnone sem (T kSubscript sc fs)] (map (den D dnone sem) l)) ->
  forall t l, erase t = Some l -> eqvl [den D dnone sem t] (map (den D dnone sem) l).
Proof. exact erase_sound. Qed.
Print Assumptions C01_erase_any.

(* ---- an unbounded statement about the rewriter itself, on a fragment of Python.
   model/RwFrag.v is a Gallina model of the two rewriting passes (ExprRewriter on names, constants, binary operations,
   comparison chains, unary / boolean / conditional expressions; expression statements, assignments, pass, if / else with
   nested bodies; StatementInserter's before_stmt / after_stmt / after_module_stmt expansion, init_module / exit_module;
   EmitterMixin.emit with direct and deferred events), for every set of unconditionally subscribed events.  ./check C01
   compares rw_module with the REAL rewriter's output by whole-tree equality on generated fragment programs (K-syn).
   C01_rw_frag: for EVERY fragment program and EVERY subscription set, erasing the model's output gives back the source;
   C01_rw_frag_certified: hence the erasure certificate holds (and with C01_erase_sound, equivalence under the laws). *)
Theorem C01_rw_frag : forall (c : rcfg) (m : tree), in_frag m = true -> erase (rw_module c m) = Some [m].
Proof. exact rw_module_erase. Qed.
Print Assumptions C01_rw_frag.
Theorem C01_rw_frag_certified : forall (c : rcfg) (m : tree), in_frag m = true -> check_erase m (rw_module c m) = true.
Proof. exact rw_module_certified. Qed.
Print Assumptions C01_rw_frag_certified.

(* non-vacuity: the laws are satisfiable - the trivial semantics (one denotation) satisfies all of them - and the
   check really computes: `x = EMIT("after_assign_rhs", <id>, ret=7, guards_by_handler_spec_id=None)` erases to `x = 7` *)
Local Open Scope N_scope.
Definition ex_src : tree :=
  T kModule [] [[T kAssign [SNone] [[T kName [SId 100] [[T kStore [] []]]]; [T kConstant [SInt 7%Z; SNone] []]]]; []].
Definition ex_out : tree :=
  T kModule [] [[T kAssign [SNone] [[T kName [SId 100] [[T kStore [] []]]];
     [T kCall [] [[T kName [SId 1] [[T kLoad [] []]]]; [T kConstant [SStr 1090; SNone] []; T kConstant [SNid 3; SNone] []];
                  [T kkeyword [SId 6] [[T kConstant [SInt 7%Z; SNone] []]]; T kkeyword [SId 7] [[T kConstant [SNone; SNone] []]]]]]]]; []].
Example C01_nonvacuous : check_erase ex_src ex_out = true /\ check_erase ex_src ex_src = true.
Proof. vm_compute. split; reflexivity. Qed.

(* non-vacuity of the fragment theorem: `a = b + 1 < 2 < a` then `if a: a` is in the fragment, and with every event on
   the model's output is a different, much larger tree *)
Definition nmv (x : N) (ctx : N) : tree := T kName [SId x] [[T ctx [] []]].
Definition ex_frag : tree :=
  T kModule [] [[T kAssign [SNone] [[nmv 100 kStore]; [T kCompare [] [[T kBinOp [] [[nmv 101 kLoad]; [T kAdd [] []]; [T kConstant [SInt 1%Z; SNone] []]]];
                                                      [T kLt [] []; T kLt [] []]; [T kConstant [SInt 2%Z; SNone] []; nmv 100 kLoad]]]];
                 T kIf [] [[nmv 100 kLoad]; [T kExpr [] [[nmv 100 kLoad]]]; []]]; []].
Example C01_rw_frag_nonvacuous :
  in_frag ex_frag = true /\ Nat.ltb (4 * size ex_frag) (size (rw_module {| sub := fun _ => true |} ex_frag)) = true.
Proof. vm_compute. split; reflexivity. Qed.
