(* C01 - no-op instrumentation never changes what the program does.
   What is proved here (L1 + L2a of DESIGN 3.4):
   * `check_erase src out` is an executable certificate check on the REAL rewriter output `out` of a program `src`
     (both exported from CPython ASTs): it erases every emit site, guard, fallback and thunk scaffold bottom-up,
     checking that the pristine copies in guard-off / fallback branches agree with the instrumented branches, and
     compares the result with the source after the three deliberate source changes (norm).
   * C01_erase_sound: for EVERY semantics of Python ASTs (D, sem) and every observational equivalence eqvl that satisfy
     the listed laws - non-interference of constructs (sem_cong), one validity law per instrumentation shape, and the
     norm law - a passed check implies that the rewritten program is equivalent to the source.
   ./check C01 evaluates check_erase in coqc (vm_compute) on every generated program x event subset x guard setting:
   each `true` is a machine-checked certificate for that program.  The laws are facts about CPython; they are
   validated by the differential oracle (plain exec vs instrumented exec), not proved. *)
From Coq Require Import List ZArith NArith Bool.
Import ListNotations.
From PyccoloV Require proofs.DocProofs.
From PyccoloV Require Import gen.PyAst gen.Events model.Tree model.Erase model.RwFrag proofs.EraseSound proofs.RwFragProofs.
From PyccoloV Require Import model.FragSem proofs.FragSemProofs.
From PyccoloV Require model.FragFun proofs.FragFunProofs model.FragProg proofs.FragProgProofs.

Theorem C01_erase_sound :
  forall (D : Type) (dnone : D) (sem : N -> list scalar -> list (list D) -> D) (eqvl : list D -> list D -> Prop),
  (forall l, eqvl l l) ->
  (forall a b c, eqvl a b -> eqvl b c -> eqvl a c) ->
  (forall a a' b b', eqvl a a' -> eqvl b b' -> eqvl (a ++ b) (a' ++ b')) ->
  (forall k sc fs fs', Forall2 eqvl fs fs' -> eqvl [sem k sc fs] [sem k sc fs']) ->
  (forall sc fs l, post kCall sc fs = Some l -> eqvl [den D dnone sem (T kCall sc fs)] (map (den D dnone sem) l)) ->
  (forall sc fs l, post kIfExp sc fs = Some l -> eqvl [den D dnone sem (T kIfExp sc fs)] (map (den D dnone sem) l)) ->
  (forall sc fs l, post kIf sc fs = Some l -> eqvl [den D dnone sem (T kIf sc fs)] (map (den D dnone sem) l)) ->
  (forall sc fs l, post kTry sc fs = Some l -> eqvl [den D dnone sem (T kTry sc fs)] (map (den D dnone sem) l)) ->
  (forall sc fs l, post kExpr sc fs = Some l -> eqvl [den D dnone sem (T kExpr sc fs)] (map (den D dnone sem) l)) ->
  (forall sc fs l, post kSubscript sc fs = Some l -> eqvl [den D dnone sem (T kSubscript sc fs)] (map (den D dnone sem) l)) ->
  (forall t, eqvl [den D dnone sem (norm t)] [den D dnone sem t]) ->
  forall src out, check_erase src out = true -> eqvl [den D dnone sem out] [den D dnone sem src].
Proof. exact check_erase_sound. Qed.
Print Assumptions C01_erase_sound.

(* the general form: whatever erase returns is equivalent to its input (used for sub-terms and by C08 / C10) *)
Theorem C01_erase_any :
  forall (D : Type) (dnone : D) (sem : N -> list scalar -> list (list D) -> D) (eqvl : list D -> list D -> Prop),
  (forall l, eqvl l l) ->
  (forall a b c, eqvl a b -> eqvl b c -> eqvl a c) ->
  (forall a a' b b', eqvl a a' -> eqvl b b' -> eqvl (a ++ b) (a' ++ b')) ->
  (forall k sc fs fs', Forall2 eqvl fs fs' -> eqvl [sem k sc fs] [sem k sc fs']) ->
  (forall sc fs l, post kCall sc fs = Some l -> eqvl [den D dnone sem (T kCall sc fs)] (map (den D dnone sem) l)) ->
  (forall sc fs l, post kIfExp sc fs = Some l -> eqvl [den D dnone sem (T kIfExp sc fs)] (map (den D dnone sem) l)) ->
  (forall sc fs l, post kIf sc fs = Some l -> eqvl [den D dnone sem (T kIf sc fs)] (map (den D dnone sem) l)) ->
  (forall sc fs l, post kTry sc fs = Some l -> eqvl [den D dnone sem (T kTry sc fs)] (map (den D dnone sem) l)) ->
  (forall sc fs l, post kExpr sc fs = Some l -> eqvl [den D dnone sem (T kExpr sc fs)] (map (den D dnone sem) l)) ->
  (forall sc fs l, post kSubscript sc fs = Some l -> eqvl [den D dnone sem (T kSubscript sc fs)] (map (den D dnone sem) l)) ->
  forall t l, erase t = Some l -> eqvl [den D dnone sem t] (map (den D dnone sem) l).
Proof. exact erase_sound. Qed.
Print Assumptions C01_erase_any.

(* ---- an unbounded statement about the rewriter itself, on a fragment of Python.
   model/RwFrag.v is a Gallina model of the two rewriting passes (ExprRewriter on names, constants, binary operations,
   comparison chains, unary / boolean / conditional expressions; expression statements, assignments, pass, if / else with
   nested bodies; StatementInserter's before_stmt / after_stmt / after_module_stmt expansion, init_module / exit_module;
   EmitterMixin.emit with direct and deferred events), for every set of unconditionally subscribed events.  ./check C01
   compares rw_module with the REAL rewriter's output by whole-tree equality on generated fragment programs (K-syn).
   C01_rw_frag: for EVERY fragment program and EVERY subscription set, erasing the model's output gives back the source;
   C01_rw_frag_certified: hence the erasure certificate holds (and with C01_erase_sound, equivalence under the laws). *)
Theorem C01_rw_frag : forall (c : rcfg) (m : tree), in_frag m = true -> erase (rw_module c m) = Some [m].
Proof. exact rw_module_erase. Qed.
Print Assumptions C01_rw_frag.
(* ... and a module docstring stays the first statement, as written, before init_module (the fragment has no other scopes) *)
Theorem C01_rw_frag_docstring : forall (c : rcfg) (m : tree), in_frag m = true ->
  exists body' ti, rw_module c m = T kModule [] [body'; ti] /\ doc_head_ok body' = true.
Proof. exact rw_module_doc_head. Qed.
Print Assumptions C01_rw_frag_docstring.
Theorem C01_rw_frag_certified : forall (c : rcfg) (m : tree), in_frag m = true -> check_erase m (rw_module c m) = true.
Proof. exact rw_module_certified. Qed.
Print Assumptions C01_rw_frag_certified.

(* non-vacuity: the laws are satisfiable - the trivial semantics (one denotation) satisfies all of them - and the
   check really computes: `x = EMIT("after_assign_rhs", <id>, ret=7, guards_by_handler_spec_id=None)` erases to `x = 7` *)
Local Open Scope N_scope.
Definition ex_src : tree :=
  T kModule [] [[T kAssign [SNone] [[T kName [SId 100] [[T kStore [] []]]]; [T kConstant [SInt 7%Z; SNone] []]]]; []].
Definition ex_out : tree :=
  T kModule [] [[T kAssign [SNone] [[T kName [SId 100] [[T kStore [] []]]];
     [T kCall [] [[T kName [SId 1] [[T kLoad [] []]]]; [T kConstant [SStr 1090; SNone] []; T kConstant [SNid 3; SNone] []];
                  [T kkeyword [SId 6] [[T kConstant [SInt 7%Z; SNone] []]]; T kkeyword [SId 7] [[T kConstant [SNone; SNone] []]]]]]]]; []].
Example C01_nonvacuous : check_erase ex_src ex_out = true /\ check_erase ex_src ex_src = true.
Proof. vm_compute. split; reflexivity. Qed.

(* DOCSTRING POSITIONS (model/Erase.v check_docs, proofs/DocProofs.v).  `EMIT(.., ret="s")` has the value of "s", and the erasure treats it
   so; but a string is the docstring of a function / class / module only when it stands, as written, as the first statement of the body -
   a fact about syntax that no law of C01_erase_sound sees.  `check_docs out` is evaluated on every rewriter output together with check_erase;
   for EVERY tree it accepts and every function / class / module body ANYWHERE in it (guard-exempt and pristine copies included): if the erased
   body (which check_erase compares with the source) begins with a docstring, then the body as written begins with that very statement;
   and a docstring written at the head of a body is the head of the erased body.  So source and output have their docstrings in the same places. *)
Theorem C01_docstrings_kept : forall out k sc fs body d' rest,
  check_docs out = true -> DocProofs.subtree (T k sc fs) out -> scope_body k fs = Some body ->
  erase_stmts body = Some (d' :: rest) -> is_docstring_strict d' = true ->
  exists body', body = d' :: body'.
Proof. exact DocProofs.check_docs_everywhere. Qed.
Print Assumptions C01_docstrings_kept.
Theorem C01_docstrings_erased : forall d body l,
  is_docstring_strict d = true -> erase_stmts (d :: body) = Some l -> exists rest, l = d :: rest.
Proof. exact DocProofs.doc_head_erased. Qed.
Print Assumptions C01_docstrings_erased.

(* non-vacuity: `def f(): "doc"; pass` whose string has been wrapped passes check_erase (the value is the same) and fails check_docs;
   left as written it passes both *)
Definition doc_fun (d : tree) : tree :=
  T kModule [] [[T kFunctionDef [SId 100%N; SNone] [[T karguments [] [[]; []; []; []; []; []; []]]; [d; T kPass [] []]; []; []; []]]; []].
Definition doc_stmt : tree := T kExpr [] [[T kConstant [SStr 500%N; SNone] []]].
Definition doc_wrapped : tree :=
  T kExpr [] [[T kCall [] [[T kName [SId 1%N] [[T kLoad [] []]]]; [T kConstant [SStr 1090%N; SNone] []; T kConstant [SNid 3%N; SNone] []];
                          [T kkeyword [SId 6%N] [[T kConstant [SStr 500%N; SNone] []]]]]]].
Example C01_docstrings_nonvacuous :
  check_erase (doc_fun doc_stmt) (doc_fun doc_wrapped) = true /\ check_docs (doc_fun doc_wrapped) = false /\
  check_erase (doc_fun doc_stmt) (doc_fun doc_stmt) = true /\ check_docs (doc_fun doc_stmt) = true.
Proof. vm_compute. repeat split; reflexivity. Qed.

(* non-vacuity of the fragment theorem: `a = b + 1 < 2 < a` then `if a: a` is in the fragment, and with every event on
   the model's output is a different, much larger tree *)
Definition nmv (x : N) (ctx : N) : tree := T kName [SId x] [[T ctx [] []]].
Definition ex_frag : tree :=
  T kModule [] [[T kAssign [SNone] [[nmv 100 kStore]; [T kCompare [] [[T kBinOp [] [[nmv 101 kLoad]; [T kAdd [] []]; [T kConstant [SInt 1%Z; SNone] []]]];
                                                      [T kLt [] []; T kLt [] []]; [T kConstant [SInt 2%Z; SNone] []; nmv 100 kLoad]]]];
                 T kIf [] [[nmv 100 kLoad]; [T kExpr [] [[nmv 100 kLoad]]]; []]]; []].
Example C01_rw_frag_nonvacuous :
  in_frag ex_frag = true /\ Nat.ltb (4 * size ex_frag) (size (rw_module {| sub := fun _ => true |} ex_frag)) = true.
Proof. vm_compute. split; reflexivity. Qed.

(* SEMANTICS on the fragment (model/FragSem.v): typed terms for source programs and for what the rewriter makes of them
   (`instr_module`, compared with the real rewriter's output tree on every K-sem program), evaluation under observing handlers.
   For ALL primitive operations (binary / comparison / unary operators, truth, constants), every subscription, every source
   module of the fragment, every initial environment: the instrumented program ends with the exception (or none) and the
   bindings of the program as it is.  No law is assumed: this is a theorem about the evaluator, which K-sem ties to CPython
   and the real runtime (exception type, final bindings, event stream of real runs = the evaluator's). *)
Theorem C01_frag_semantics : forall binop cmpop unop truth cval is_and (c : rcfg) (body : list tstmt) (r : env) (sv sv' : val),
  forallb src_s body = true ->
  s_exc (exec_l binop cmpop unop truth cval is_and (instr_module c body) r sv) = s_exc (exec_l binop cmpop unop truth cval is_and body r sv') /\
  s_env (exec_l binop cmpop unop truth cval is_and (instr_module c body) r sv) = s_env (exec_l binop cmpop unop truth cval is_and body r sv').
Proof. exact frag_semantics. Qed.
Print Assumptions C01_frag_semantics.

(* non-vacuity: `a = 2; b = a + 3 < 9; if b: a // 0` is a source module; with every event subscribed it still ends in ZeroDivisionError with a = 2, b = True *)
Definition ex_sem : list tstmt :=
  [SAssign 1 [100] (XConst 4 (SInt 2%Z));
   SAssign 5 [101] (XCmp 8 (XBin 9 (XName 10 100) kAdd (XConst 13 (SInt 3%Z))) [kLt] [XConst 15 (SInt 9%Z)]);
   SIf 16 (XName 17 101) [SExpr 19 (XBin 20 (XName 21 100) kFloorDiv (XConst 24 (SInt 0%Z)))] []]%N.
Example C01_frag_semantics_nonvacuous :
  forallb src_s ex_sem = true /\
  let a := exec_l Py.binop Py.cmpop Py.unop Py.truth Py.cval Py.is_and (instr_module {| sub := fun _ => true |} ex_sem) (fun _ => None) VNone in
  s_exc a = Some EZeroDiv /\ s_env a 100%N = Some (VInt 2) /\ s_env a 101%N = Some (VBool true) /\ length (s_log a) = 32%nat.
Proof. vm_compute. repeat split; reflexivity. Qed.

(* ... and with FUNCTIONS (model/FragFun.v: module-level definitions, return, calls as right-hand sides, recursion on call-depth fuel `d`,
   Python's local / global scoping): for all primitive operations, subscriptions `c`, guard settings `ge`, guard policies `pol`, depths, source
   modules of the fragment and environments, the instrumented program ends with the exception (or none, or out of fuel) and the bindings of
   the program as it is.  K-fun ties the model to the real rewriter (whole-tree equality), CPython and the real runtime. *)
Theorem C01_fun_semantics : forall binop cmpop unop truth cval is_and c ge pol c0 pol0 m d r sv sv',
  forallb FragFunProofs.fsrc_t m = true ->
  FragFun.f_exc (FragFun.frun binop cmpop unop truth cval is_and c pol d (FragFun.finstr_module c ge m) r sv) =
  FragFun.f_exc (FragFun.frun binop cmpop unop truth cval is_and c0 pol0 d m r sv') /\
  FragFun.f_env (FragFun.frun binop cmpop unop truth cval is_and c pol d (FragFun.finstr_module c ge m) r sv) =
  FragFun.f_env (FragFun.frun binop cmpop unop truth cval is_and c0 pol0 d m r sv').
Proof. exact FragFunProofs.fun_plain. Qed.
Print Assumptions C01_fun_semantics.

(* non-vacuity: `def h(p): if p <= 0: return 0` / `d = h(p - 1)` / `return d + p`, then `a = h(3)`: a recursive source module; with every
   event subscribed it ends with a = 6 (and 5 frames need depth 5: with depth 3 both the source and the instrumented program run out of fuel) *)
Definition ex_rec : list FragFun.fstmt :=
  [FragFun.FDef 1 100 [101]
     [FragFun.FIf 4 (XCmp 5 (XName 6 101) [kLtE] [XConst 9 (SInt 0%Z)]) [FragFun.FReturn 10 (Some (FragFun.RExp (XConst 11 (SInt 0%Z))))] [];
      FragFun.FAssign 12 [102] (FragFun.RCall 15 false false false (XName 16 100) [XBin 18 (XName 19 101) kSub (XConst 22 (SInt 1%Z))]);
      FragFun.FReturn 23 (Some (FragFun.RExp (XBin 24 (XName 25 102) kAdd (XName 28 101))))];
   FragFun.FAssign 30 [103] (FragFun.RCall 33 false false false (XName 34 100) [XConst 36 (SInt 3%Z)])]%N.
Example C01_fun_semantics_nonvacuous :
  forallb FragFunProofs.fsrc_t ex_rec = true /\
  let run d := FragFun.frun Py.binop Py.cmpop Py.unop Py.truth Py.cval Py.is_and {| sub := fun _ => true |} (fun _ _ => true) d
                 (FragFun.finstr_module {| sub := fun _ => true |} true ex_rec) (fun _ => None) VNone in
  FragFun.f_exc (run 5%nat) = None /\ FragFun.f_env (run 5%nat) 103%N = Some (VInt 6) /\ FragFun.f_env (run 5%nat) 102%N = None /\
  FragFun.f_exc (run 3%nat) = Some FragFun.FFuel /\
  FragFun.f_exc (FragFun.frun Py.binop Py.cmpop Py.unop Py.truth Py.cval Py.is_and {| sub := fun _ => false |} (fun _ _ => true) 3%nat ex_rec (fun _ => None) VNone) = Some FragFun.FFuel.
Proof. vm_compute. repeat split; reflexivity. Qed.

(* ... and with LOOPS AND FUNCTIONS TOGETHER (model/FragProg.v: while / else / break / continue in function bodies and at module level, return from
   inside loops, calls from loops, recursion; fuel per loop execution and per call depth; one policy over test, body and function guards) - it subsumes
   C01_frag_semantics' statement layer and C01_fun_semantics.  K-prog ties it to the real rewriter (whole-tree equality), CPython and the runtime. *)
Theorem C01_prog_semantics : forall binop cmpop unop truth cval is_and fuel c ge pol c0 pol0 m d r sv sv',
  forallb FragProgProofs.psrc_t m = true ->
  FragProg.p_exc (FragProg.prun binop cmpop unop truth cval is_and c pol fuel d (FragProg.pinstr_module c ge m) r sv) =
  FragProg.p_exc (FragProg.prun binop cmpop unop truth cval is_and c0 pol0 fuel d m r sv') /\
  FragProg.p_env (FragProg.prun binop cmpop unop truth cval is_and c pol fuel d (FragProg.pinstr_module c ge m) r sv) =
  FragProg.p_env (FragProg.prun binop cmpop unop truth cval is_and c0 pol0 fuel d m r sv').
Proof. exact FragProgProofs.prog_plain. Qed.
Print Assumptions C01_prog_semantics.

(* non-vacuity: `def g(p): i = 0; while True: i = i + 1; if i > p: break` / `return i`, then `a = 0; while a < 2: a = g(a)`: a module-level loop
   calling a function that loops and breaks; every event subscribed; ends with a = 2 (and g's loop needs 3 iterations of fuel: with fuel 2 both
   the source and the instrumented program run out of fuel) *)
Definition ex_prog : list FragProg.pstmt :=
  [FragProg.PDef 1 100 [101]
     [FragProg.PAssign 4 [102] (FragFun.RExp (XConst 7 (SInt 0%Z)));
      FragProg.PWhile 8 (XConst 9 (SBool true))
        [FragProg.PAssign 10 [102] (FragFun.RExp (XBin 13 (XName 14 102) kAdd (XConst 17 (SInt 1%Z))));
         FragProg.PIf 18 (XCmp 19 (XName 20 102) [kGt] [XName 23 101]) [FragProg.PBreak 25] []] [];
      FragProg.PReturn 26 (Some (FragFun.RExp (XName 27 102)))];
   FragProg.PAssign 29 [103] (FragFun.RExp (XConst 32 (SInt 0%Z)));
   FragProg.PWhile 33 (XCmp 34 (XName 35 103) [kLt] [XConst 38 (SInt 2%Z)])
     [FragProg.PAssign 39 [103] (FragFun.RCall 42 false false false (XName 43 100) [XName 45 103])] []]%N.
Example C01_prog_semantics_nonvacuous :
  forallb FragProgProofs.psrc_t ex_prog = true /\
  let run fuel := FragProg.prun Py.binop Py.cmpop Py.unop Py.truth Py.cval Py.is_and {| sub := fun _ => true |} (fun _ _ => true) fuel 3
                    (FragProg.pinstr_module {| sub := fun _ => true |} true ex_prog) (fun _ => None) VNone in
  FragProg.p_exc (run 5%nat) = None /\ FragProg.p_env (run 5%nat) 103%N = Some (VInt 2) /\
  FragProg.p_exc (run 2%nat) = Some (FragProg.PO FragFun.FFuel) /\
  FragProg.p_exc (FragProg.prun Py.binop Py.cmpop Py.unop Py.truth Py.cval Py.is_and {| sub := fun _ => false |} (fun _ _ => true) 2 3 ex_prog (fun _ => None) VNone)
  = Some (FragProg.PO FragFun.FFuel).
Proof. vm_compute. repeat split; reflexivity. Qed.
