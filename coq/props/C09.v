(* C09 - system-trace handlers see every event, disturb nothing, and coexist.
   Model: model/SysTrace.v = CPython 3.12's trace protocol + tracer.py's _sys_tracer / composed tracers, over runs given
   as trees of frames (each frame: whether the tracer's file filter accepts it, a name, and its line / exception events
   and nested frames in order; a generator resumption is a separate frame).  Tied to tracer.py and to the interpreter
   by the K-sys correspondence of ./check C09 (real sys.settrace recorders).
   `events n` is what a plain recorder accepting the same files sees. *)
From Coq Require Import List NArith Bool.
Import ListNotations.
From PyccoloV Require Import model.SysTrace proofs.SysTraceProofs.

(* for every run, every subscription (any subset of call/line/return/exception) and every third-party trace function
   installed before: the handlers are invoked exactly once per subscribed interpreter event of accepted frames, in
   order ... *)
Theorem C09_handler_log : forall c n,
  handler_log (run c VSys n) = filter (fun e => sub c (fst e)) (events n).
Proof. intros c n. exact (proj1 (all_good c n)). Qed.
Print Assumptions C09_handler_log.

(* ... and the third-party function (whether it returns itself, a distinct local function, or declines frames)
   receives exactly the events it receives without pyccolo, each through the same one of its functions *)
Theorem C09_third_party : forall c n,
  third_log (run c VSys n) = third_log (run c (global_of c) n).
Proof. intros c n. exact (proj2 (all_good c n)). Qed.
Print Assumptions C09_third_party.

(* non-vacuity: a return-only subscription sees the returns of accepted frames (the history that used to deliver
   nothing), a selective third party is not handed events of the frame it declined *)
Local Open Scope N_scope.
Definition ex_run : node :=
  Nd (TFrame true 1) [Nd TLine []; Nd (TFrame true 2) [Nd TLine []; Nd TExc []]; Nd (TFrame false 3) [Nd TLine []]; Nd TLine []].
Definition ex_cfg : cfg :=
  {| sub := fun e => match e with SRet => true | _ => false end;
     tp := Some {| tp_accepts := fun nm => negb (N.eqb nm 2); tp_self := false |} |}.
Example C09_nonvacuous :
  handler_log (run ex_cfg VSys ex_run) = [(SRet, 2); (SRet, 1)] /\
  third_log (run ex_cfg VSys ex_run) =
    [(WG, SCall, 1); (WL, SLine, 1); (WG, SCall, 2); (WG, SCall, 3); (WL, SLine, 3); (WL, SRet, 3); (WL, SLine, 1); (WL, SRet, 1)].
Proof. vm_compute. split; reflexivity. Qed.
