(* C09 - system-trace handlers see every event, disturb nothing, and coexist.
   Model: model/SysTrace.v = CPython 3.12's trace protocol + tracer.py's _sys_tracer / composed tracers, over runs given
   as trees of frames (each frame: whether the tracer's file filter accepts it, a name, and its line / exception events
   and nested frames in order; a generator resumption is a separate frame).  Tied to tracer.py and to the interpreter
   by the K-sys correspondence of ./check C09 (real sys.settrace recorders).
   `events n` is what a plain recorder accepting the same files sees. *)
From Coq Require Import List NArith Bool.
Import ListNotations.
From PyccoloV Require Import model.SysTrace proofs.SysTraceProofs.
From PyccoloV Require gen.SysFlags model.SysHist proofs.SysHistProofs.

(* for every run, every subscription (any subset of call/line/return/exception) and every third-party trace function
   installed before: the handlers are invoked exactly once per subscribed interpreter event of accepted frames, in
   order ... *)
Theorem C09_handler_log : forall c n,
  handler_log (run c VSys n) = filter (fun e => sub c (fst e)) (events n).
Proof. intros c n. exact (proj1 (all_good c n)). Qed.
Print Assumptions C09_handler_log.

(* ... and the third-party function (whether it returns itself, a distinct local function, or declines frames)
   receives exactly the events it receives without pyccolo, each through the same one of its functions *)
Theorem C09_third_party : forall c n,
  third_log (run c VSys n) = third_log (run c (global_of c) n).
Proof. intros c n. exact (proj2 (all_good c n)). Qed.
Print Assumptions C09_third_party.

(* non-vacuity: a return-only subscription sees the returns of accepted frames (the history that used to deliver
   nothing), a selective third party is not handed events of the frame it declined *)
Local Open Scope N_scope.
Definition ex_run : node :=
  Nd (TFrame true 1) [Nd TLine []; Nd (TFrame true 2) [Nd TLine []; Nd TExc []]; Nd (TFrame false 3) [Nd TLine []]; Nd TLine []].
Definition ex_cfg : cfg :=
  {| sub := fun e => match e with SRet => true | _ => false end;
     tp := Some {| tp_accepts := fun nm => negb (N.eqb nm 2); tp_self := false |} |}.
Example C09_nonvacuous :
  handler_log (run ex_cfg VSys ex_run) = [(SRet, 2); (SRet, 1)] /\
  third_log (run ex_cfg VSys ex_run) =
    [(WG, SCall, 1); (WL, SLine, 1); (WG, SCall, 2); (WG, SCall, 3); (WL, SLine, 3); (WL, SRet, 3); (WL, SLine, 1); (WL, SRet, 1)].
Proof. vm_compute. split; reflexivity. Qed.

(* HISTORIES: user code calls sys.settrace(A) / sys.settrace(B) / sys.settrace(None) while the program runs (model/SysHist.v: a plain
   machine for CPython's protocol with a mutable global trace function, a pyccolo machine in which the global function is always the
   composed tracer and `existing_tracer` is what user code last installed).  gen/SysFlags.v is REGENERATED from tracer.py and says whether
   _call_existing_tracer skips an uninstalled third party and whether frames the tracer does not trace get a composed local function; the
   theorem is stated for those flags, so it only type-checks while both hold.
   For every family of third-party functions, every subscription, every run (frames the tracer accepts or not, nested, with settrace
   calls anywhere) and every function installed beforehand: the function in place afterwards is the one user code left, the third-party
   functions receive exactly the events they receive without pyccolo (each through the same one of its functions), and the handlers see
   the plain event stream of the accepted frames filtered by the subscription - also while no third-party function is installed. *)
Theorem C09_histories : forall tps sub n g,
  fst (SysHist.pyc tps sub SysFlags.sys_checks_uninstall SysFlags.sys_wraps_foreign SysFlags.sys_rebinds_local g n) = fst (SysHist.plain tps g n) /\
  SysHist.third_log (snd (SysHist.pyc tps sub SysFlags.sys_checks_uninstall SysFlags.sys_wraps_foreign SysFlags.sys_rebinds_local g n)) = snd (SysHist.plain tps g n) /\
  SysHist.handler_log (snd (SysHist.pyc tps sub SysFlags.sys_checks_uninstall SysFlags.sys_wraps_foreign SysFlags.sys_rebinds_local g n)) =
    filter (fun e => sub (fst e)) (SysHist.events n).
Proof. intros tps sub n g. exact (SysHistProofs.all_good tps sub n g). Qed.
Print Assumptions C09_histories.

(* the two repaired defects, kept as checked witnesses (an uninstalled function still called in a running frame: of an accepted file,
   of a file the tracer does not accept) *)
(* a third party whose local function hands over to another local function (debuggers: until the first line, then the rest) is part
   of C09_histories (tp_switch); without following the hand-over the first function keeps receiving everything *)
Theorem C09_no_rebind_refuted :
  SysHist.third_log (snd (SysHist.pyc SysHistProofs.tp_sw (fun _ => true) true true false (Some 0%nat) SysHistProofs.ex_sw)) <>
    snd (SysHist.plain SysHistProofs.tp_sw (Some 0%nat) SysHistProofs.ex_sw)
  /\ snd (SysHist.plain SysHistProofs.tp_sw (Some 0%nat) SysHistProofs.ex_sw) =
       [(SysHist.WG 0, SysHist.SCall, 1%N); (SysHist.WL 0, SysHist.SLine, 1%N); (SysHist.WL2 0, SysHist.SLine, 1%N); (SysHist.WL2 0, SysHist.SRet, 1%N)].
Proof. exact SysHistProofs.no_rebind_refuted. Qed.
Print Assumptions C09_no_rebind_refuted.
Theorem C09_histories_refuted :
  SysHist.third_log (snd (SysHist.pyc SysHistProofs.tp_all (fun _ => true) false true true (Some 0%nat) (SysHistProofs.ex_hist true))) <>
    snd (SysHist.plain SysHistProofs.tp_all (Some 0%nat) (SysHistProofs.ex_hist true)) /\
  SysHist.third_log (snd (SysHist.pyc SysHistProofs.tp_all (fun _ => true) true false true (Some 0%nat) (SysHistProofs.ex_hist false))) <>
    snd (SysHist.plain SysHistProofs.tp_all (Some 0%nat) (SysHistProofs.ex_hist false)).
Proof. exact (conj SysHistProofs.no_uninstall_check_refuted SysHistProofs.raw_foreign_refuted). Qed.
Print Assumptions C09_histories_refuted.

Example C09_histories_nonvacuous :
  let n := SysHist.Nd (SysHist.TFrame true 1) [SysHist.Nd SysHist.TLine []; SysHist.Nd (SysHist.TSet None) []; SysHist.Nd SysHist.TLine [];
                                               SysHist.Nd (SysHist.TSet (Some 1%nat)) []; SysHist.Nd SysHist.TLine []] in
  snd (SysHist.plain SysHistProofs.tp_all (Some 0%nat) n) =
    [(SysHist.WG 0, SysHist.SCall, 1); (SysHist.WL 0, SysHist.SLine, 1); (SysHist.WL 0, SysHist.SLine, 1); (SysHist.WL 0, SysHist.SRet, 1)] /\
  fst (SysHist.plain SysHistProofs.tp_all (Some 0%nat) n) = Some 1%nat.
Proof. vm_compute. split; reflexivity. Qed.
