(* C16 - handlers are never re-entered by the instrumented code they run.
   Model: model/Reent.v.  A behaviour is a finite tree (the unfolding of one run): emissions whose handlers, if
   invoked, perform nested emissions, open `allow_reentrant_event_handling()` regions, catch or raise; tracers may
   allow re-entrant events, propagate handler exceptions, be hard-disabled; handlers may be registered reentrant,
   return Skip/SkipAll or raise.  Every log entry is one handler invocation: (handlers already running, opted-in,
   occurrence id) with opted-in := the region switch is on at that moment, or the tracer allows re-entrant events
   and the handler is registered reentrant. *)
From Coq Require Import List NArith Bool.
Import ListNotations.
From PyccoloV Require Import model.Reent proofs.ReentProofs.

(* every handler invocation that happens while another handler is running is an opted-in one:
   ordinary handlers never nest, so handler nesting depth never exceeds one without an explicit opt-in *)
Theorem C16_depth : forall n s, inv s -> good_log s -> good_log (snd (run n s)).
Proof. exact depth_all. Qed.
Print Assumptions C16_depth.

(* both switches (and the bookkeeping of running handlers) are as before after any emission, region or
   try/except - also when a handler raises and the tracer propagates it *)
Theorem C16_restore : forall n s, same s (snd (run n s)).
Proof. exact restore_all. Qed.
Print Assumptions C16_restore.

(* ... hence for any sequence of top-level emissions: delivery resumes normally after each one *)
Theorem C16_resume : forall ns s, same s (snd (run_all ns s)).
Proof. exact run_all_restores. Qed.
Print Assumptions C16_resume.
Theorem C16_depth_seq : forall ns s, inv s -> good_log s -> good_log (snd (run_all ns s)).
Proof. exact run_all_depth. Qed.
Print Assumptions C16_depth_seq.

(* non-vacuity: from the initial state the hypotheses hold; a handler that runs instrumented code is not re-entered
   (one invocation at depth 0, none at depth 1) unless tracer+handler opt in (then depth 1 occurs and is opted-in);
   a propagating raise inside the nested emission leaves the switches restored *)
Definition hnd (id : N) (re raises : bool) (acts : list node) : node := Node (TgHandler id re raises CContinue) acts.
Definition em1 (allow_re re : bool) : node :=
  Node TgEm [Node (TgTracer allow_re true false false)
     [hnd 1 re false [Node TgCatch [Node TgEm [Node (TgTracer allow_re true false false) [hnd 2 re true []]]]]]].
Example C16_nonvacuous :
  inv st0 /\ good_log st0 /\
  log (snd (run (em1 false false) st0)) = [(0, false, 1%N)]%nat /\
  log (snd (run (em1 true true) st0)) = [(0, true, 1%N); (1, true, 2%N)]%nat /\
  (fA (snd (run (em1 true true) st0)), fR (snd (run (em1 true true) st0))) = (true, false).
Proof.
  split; [intros H; inversion H|]. split; [constructor|]. vm_compute. repeat split; reflexivity.
Qed.
