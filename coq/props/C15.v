(* C15 - exec returns exactly the program's own bindings; no internal name leaks.
   Model: model/Sandbox.v (the scaffold of tracer.exec around the spliced program), tied to tracer.py by the K-sbx
   correspondence of ./check C15.  eval is a direct delegation to the built-in eval on the rewritten expression and
   is covered by the correspondence and the oracle only.
   user_map / user_prog: every name is an ordinary identifier (not "__", "builtins", "@..." or an _X5ix name). *)
From Coq Require Import List ZArith NArith Bool.
Import ListNotations.
From PyccoloV Require Import model.Sandbox proofs.SandboxProofs.

Theorem C15_result_partial : forall L G p, user_map L -> user_map G -> user_prog p -> raises_after p = None ->
  exec_model L G p = (Some (fst (spec_result L G p)), L, snd (spec_result L G p)).
Proof. exact exec_refines. Qed.
Print Assumptions C15_result_partial.
(* what is missing for the full statement: programs that bind the names `__` or `builtins` (next theorem) *)
Theorem C15_result_refuted :
  exists p, raises_after p = None /\
    aget (fst (spec_result [] [] p)) n_builtins = Some 5%Z /\
    (match fst (fst (exec_model [] [] p)) with Some res => aget res n_builtins | None => None end) = None.
Proof. exact reserved_names_refuted. Qed.
Print Assumptions C15_result_refuted.

Theorem C15_raises : forall L G p i, user_map L -> user_map G -> user_prog p -> raises_after p = Some i ->
  exec_model L G p = (None, L, snd (run_ops (firstn i (ops p)) (L, G))).
Proof. exact exec_raises. Qed.
Print Assumptions C15_raises.

Theorem C15_clean : forall L G p, user_map L -> user_map G -> user_prog p ->
  let '(r, L', G') := exec_model L G p in
  clean L' /\ clean G' /\ match r with Some res => clean res | None => True end.
Proof. exact exec_clean. Qed.
Print Assumptions C15_clean.

Example C15_nonvacuous :
  let L : assoc := [(10%N, 1%Z); (11%N, 2%Z)] in let G : assoc := [(20%N, 7%Z)] in
  let p := {| ops := [Bind 12%N 3%Z; Del 10%N; GBind 21%N 4%Z; Bind 11%N 9%Z]; raises_after := None |} in
  user_map L /\ user_map G /\ user_prog p /\
  exec_model L G p = (Some [(12%N, 3%Z); (11%N, 9%Z)], L, [(20%N, 7%Z); (21%N, 4%Z)]).
Proof.
  cbn. repeat split; try (vm_compute; reflexivity).
  - intros k [<-|[<-|[]]]; discriminate.
  - intros k [<-|[]]; discriminate.
  - intros o [<-|[<-|[<-|[<-|[]]]]]; discriminate.
Qed.
