(* C15 - exec returns exactly the program's own bindings; no internal name leaks.
   Model: model/Sandbox.v (the scaffold of tracer.exec around the spliced program), tied to tracer.py by the K-sbx
   correspondence of ./check C15.  eval is a direct delegation to the built-in eval on the rewritten expression and
   is covered by the correspondence and the oracle only.
   user_map / user_prog: every name is an ordinary identifier (not "__", "builtins", "@..." or an _X5ix name). *)
From Coq Require Import List ZArith NArith Bool.
Import ListNotations.
From PyccoloV Require Import model.Sandbox proofs.SandboxProofs.

(* when every supplied name is a parameter of the sandbox function (none is declared global by the program, none is a keyword
   or a non-identifier): the very mapping of the reference *)
Theorem C15_result_partial : forall L G p, user_map L -> user_map G -> user_prog p -> plain_locals L p -> raises_after p = None ->
  exec_model L G p = (Some (fst (spec_result L G p)), L, snd (spec_result L G p)).
Proof. exact exec_refines. Qed.
Print Assumptions C15_result_partial.
(* in general (supplied names the program declares global, or that cannot be parameter names, are handed back unchanged): the
   result holds, name by name, what the reference holds *)
Theorem C15_result_passthrough : forall L G p, user_map L -> user_map G -> user_prog p -> wf_prog p -> raises_after p = None ->
  exists res, exec_model L G p = (Some res, L, snd (spec_result L G p)) /\ forall k, aget res k = aget (fst (spec_result L G p)) k.
Proof. exact exec_passthrough. Qed.
Print Assumptions C15_result_passthrough.
(* what is missing for the full statement: programs that bind the names `__` or `builtins` (next theorem) *)
Theorem C15_result_refuted :
  exists p, raises_after p = None /\
    aget (fst (spec_result [] [] p)) n_builtins = Some 5%Z /\
    (match fst (fst (exec_model [] [] p)) with Some res => aget res n_builtins | None => None end) = None.
Proof. exact reserved_names_refuted. Qed.
Print Assumptions C15_result_refuted.

(* locals IS globals (exec at module level without mappings, or with only a globals mapping): one mapping M, in which the scaffold
   parks its two names while the program runs and which `global k; k = v` writes.  Afterwards M holds, name by name, what the
   reference's globals hold (the scaffold names are gone); the result holds the reference's locals for the names that are
   parameters, and for the supplied names that are not (declared global by the program, or no possible parameter name) their
   FINAL value in the mapping *)
Theorem C15_same_mapping : forall M p, user_map M -> user_prog p -> wf_prog p -> raises_after p = None ->
  exists res M', exec_same M p = (Some res, M') /\
    (forall k, aget M' k = aget (snd (spec_same M p)) k) /\
    (forall k, aget res k =
       if is_param (gdecl p) k then aget (fst (spec_same M p)) k
       else if usable k && existsb (N.eqb k) (keys M) then aget (snd (spec_same M p)) k else None).
Proof. exact exec_same_refines. Qed.
Print Assumptions C15_same_mapping.
Theorem C15_same_mapping_raises : forall M p i, user_map M -> user_prog p -> raises_after p = Some i ->
  exists M', exec_same M p = (None, M') /\
    forall k, aget M' k = aget (snd (run_ops (firstn i (ops p)) (filter (fun kv => is_param (gdecl p) (fst kv)) M, M))) k.
Proof. exact exec_same_raises. Qed.
Print Assumptions C15_same_mapping_raises.
(* `counter = 0` at module level, then exec("global counter; counter = 7; y = 3") with no mappings: counter is 7 in the module
   and in the result, y is in the result only *)
Example C15_same_nonvacuous :
  let M : assoc := [(10%N, 0%Z); (12%N, 5%Z)] in
  let p := {| ops := [GBind 10%N 7%Z; Bind 11%N 3%Z]; raises_after := None; gdecl := [10%N] |} in
  exec_same M p = (Some [(12%N, 5%Z); (11%N, 3%Z); (10%N, 7%Z)], [(12%N, 5%Z); (10%N, 7%Z)]).
Proof. vm_compute. reflexivity. Qed.

Theorem C15_raises : forall L G p i, user_map L -> user_map G -> user_prog p -> raises_after p = Some i ->
  exec_model L G p = (None, L, snd (run_ops (firstn i (ops p)) (L, G))).
Proof. exact exec_raises. Qed.
Print Assumptions C15_raises.

Theorem C15_clean : forall L G p, user_map L -> user_map G -> user_prog p ->
  let '(r, L', G') := exec_model L G p in
  clean L' /\ clean G' /\ match r with Some res => clean res | None => True end.
Proof. exact exec_clean. Qed.
Print Assumptions C15_clean.

Example C15_nonvacuous :
  let L : assoc := [(10%N, 1%Z); (11%N, 2%Z)] in let G : assoc := [(20%N, 7%Z)] in
  let p := {| ops := [Bind 12%N 3%Z; Del 10%N; GBind 21%N 4%Z; Bind 11%N 9%Z]; raises_after := None; gdecl := [21%N] |} in
  user_map L /\ user_map G /\ user_prog p /\ plain_locals L p /\
  exec_model L G p = (Some [(12%N, 3%Z); (11%N, 9%Z)], L, [(20%N, 7%Z); (21%N, 4%Z)]).
Proof.
  cbn. repeat split; try (vm_compute; reflexivity).
  - intros k [<-|[<-|[]]]; discriminate.
  - intros k [<-|[]]; discriminate.
  - intros o [<-|[<-|[<-|[<-|[]]]]]; discriminate.
  - intros k [<-|[<-|[]]]; reflexivity.
Qed.
(* `global counter; counter = 7` with a supplied local `counter` (name 10), next to a supplied key 'class' (name 30): the local
   `counter` and 'class' come back unchanged, the global is bound (before 028d715: SyntaxError in both cases) *)
Example C15_passthrough_nonvacuous :
  let L : assoc := [(10%N, 0%Z); (30%N, 5%Z); (11%N, 2%Z)] in
  let p := {| ops := [GBind 10%N 7%Z; Bind 11%N 3%Z]; raises_after := None; gdecl := [10%N] |} in
  user_map L /\ user_prog p /\ wf_prog p /\ ~ plain_locals L p /\
  exec_model L [] p = (Some [(11%N, 3%Z); (10%N, 0%Z); (30%N, 5%Z)], L, [(10%N, 7%Z)]).
Proof.
  cbn. repeat split; try (vm_compute; reflexivity).
  - intros k [<-|[<-|[<-|[]]]]; discriminate.
  - intros o [<-|[<-|[]]]; discriminate.
  - intros o [<-|[<-|[]]]; cbn; [now left|split; [reflexivity|intros [H|[]]; discriminate]].
  - intros H. specialize (H 10%N (or_introl eq_refl)). vm_compute in H. discriminate.
Qed.
