(* C10 - activating a guard silences a body without changing results.
   Every guarded construct is rewritten to  `if TRACING_ENABLED and <guard> [and ...]: <instrumented> else: <pristine copy>`
   (statement form for loop and function bodies, conditional-expression form for while tests, lambda bodies and
   comprehension parts).  Whatever the guard flags are at run time, one of the two branches runs.  The erasure only
   accepts such a node when the pristine branch, after the deliberate source changes, is IDENTICAL to the erasure of
   the instrumented branch (C10_guard_branches_agree); C10_erase_sound (the C01 theorem) then gives, for every semantics
   satisfying the laws, that the rewritten program is equivalent to the source - independently of the flag values, since
   the guard law `if g: A else: B ~ A when A ~ B` holds for every value of g.
   ./check C10 evaluates the certificate on programs rewritten with guards enabled and runs them under random
   activation / deactivation schedules driven from the bracket-event handlers. *)
From Coq Require Import List ZArith NArith Bool.
Import ListNotations.
From PyccoloV Require Import gen.PyAst model.Tree model.Erase proofs.EraseSound.

Theorem C10_guard_branches_agree : forall sc test b o l,
  is_guard_test test = true ->
  (post kIf sc [[test]; b; o] = Some l -> l = b /\ trees_eqb b (map norm o) = true) /\
  (forall b1 o1, post kIfExp sc [[test]; [b1]; [o1]] = Some l -> l = [b1] /\ tree_eqb b1 (norm o1) = true).
Proof.
  intros sc test b o l Hg. split.
  - unfold post. change (N.eqb kIf kCall) with false. change (N.eqb kIf kIfExp) with false. change (N.eqb kIf kIf) with true.
    cbn iota. rewrite Hg. destruct (trees_eqb b (map norm o)) eqn:E; intros H; inversion H; auto.
  - intros b1 o1. unfold post. change (N.eqb kIfExp kCall) with false. change (N.eqb kIfExp kIfExp) with true.
    cbn iota. rewrite Hg. destruct (tree_eqb b1 (norm o1)) eqn:E; intros H; inversion H; auto.
Qed.
Print Assumptions C10_guard_branches_agree.

Theorem C10_erase_sound :
  forall (D : Type) (dnone : D) (sem : N -> list scalar -> list (list D) -> D) (eqvl : list D -> list D -> Prop),
  (forall l, eqvl l l) ->
  (forall a b c, eqvl a b -> eqvl b c -> eqvl a c) ->
  (forall a a' b b', eqvl a a' -> eqvl b b' -> eqvl (a ++ b) (a' ++ b')) ->
  (forall k sc fs fs', Forall2 eqvl fs fs' -> eqvl [sem k sc fs] [sem k sc fs']) ->
  (forall sc fs l, post kCall sc fs = Some l -> eqvl [den D dnone sem (T kCall sc fs)] (map (den D dnone sem) l)) ->
  (forall sc fs l, post kIfExp sc fs = Some l -> eqvl [den D dnone sem (T kIfExp sc fs)] (map (den D dnone sem) l)) ->
  (forall sc fs l, post kIf sc fs = Some l -> eqvl [den D dnone sem (T kIf sc fs)] (map (den D dnone sem) l)) ->
  (forall sc fs l, post kTry sc fs = Some l -> eqvl [den D dnone sem (T kTry sc fs)] (map (den D dnone sem) l)) ->
  (forall sc fs l, post kExpr sc fs = Some l -> eqvl [den D dnone sem (T kExpr sc fs)] (map (den D dnone sem) l)) ->
  (forall sc fs l, post kSubscript sc fs = Some l -> eqvl [den D dnone sem (T kSubscript sc fs)] (map (den D dnone sem) l)) ->
  (forall t, eqvl [den D dnone sem (norm t)] [den D dnone sem t]) ->
  forall src out, check_erase src out = true -> eqvl [den D dnone sem out] [den D dnone sem src].
Proof. exact check_erase_sound. Qed.
Print Assumptions C10_erase_sound.

(* non-vacuity: a guard conditional with differing branches is rejected, with equal branches it collapses *)
Local Open Scope N_scope.
Definition gtest : tree := T kBoolOp [] [[T kAnd [] []]; [T kName [SId 4] [[T kLoad [] []]]; T kName [SId 5000] [[T kLoad [] []]]]].
Definition c1 (z : Z) : tree := T kConstant [SInt z; SNone] [].
Example C10_nonvacuous :
  is_guard_test gtest = true /\ post kIfExp [] [[gtest]; [c1 1]; [c1 1]] = Some [c1 1] /\ post kIfExp [] [[gtest]; [c1 1]; [c1 2]] = None.
Proof. vm_compute. repeat split; reflexivity. Qed.
