(* C10 - activating a guard silences a body without changing results.
   Every guarded construct is rewritten to  `if TRACING_ENABLED and <guard> [and ...]: <instrumented> else: <pristine copy>`
   (statement form for loop and function bodies, conditional-expression form for while tests, lambda bodies and
   comprehension parts).  Whatever the guard flags are at run time, one of the two branches runs.  The erasure only
   accepts such a node when the pristine branch, after the deliberate source changes, is IDENTICAL to the erasure of
   the instrumented branch (C10_guard_branches_agree); C10_erase_sound (the C01 theorem) then gives, for every semantics
   satisfying the laws, that the rewritten program is equivalent to the source - independently of the flag values, since
   the guard law `if g: A else: B ~ A when A ~ B` holds for every value of g.
   ./check C10 evaluates the certificate on programs rewritten with guards enabled and runs them under random
   activation / deactivation schedules driven from the bracket-event handlers. *)
From Coq Require Import List ZArith NArith Bool.
Import ListNotations.
From PyccoloV Require gen.Events model.RwFrag model.FragSem proofs.FragSemProofs model.FragLoop proofs.FragLoopProofs model.FragFun proofs.FragFunProofs model.FragProg proofs.FragProgProofs.
From PyccoloV Require proofs.DocProofs.
From PyccoloV Require Import gen.PyAst model.Tree model.Erase proofs.EraseSound.

Theorem C10_guard_branches_agree : forall sc test b o l,
  is_guard_test test = true ->
  (post kIf sc [[test]; b; o] = Some l ->
     l = b /\ (trees_eqb b (map norm o) = true
              \/ (o = [] /\ forallb (tree_eqb (T kPass [] [])) b = true))) /\     (* or: nothing but `pass` is guarded and there is no
                                                                                  other branch (a loop body of hoisted declarations only) *)
  (forall b1 o1, post kIfExp sc [[test]; [b1]; [o1]] = Some l -> l = [b1] /\ tree_eqb b1 (norm o1) = true).
Proof.
  intros sc test b o l Hg. split.
  - unfold post. change (N.eqb kIf kCall) with false. change (N.eqb kIf kIfExp) with false. change (N.eqb kIf kIf) with true.
    cbn iota. rewrite Hg. destruct (trees_eqb b (map norm o)) eqn:E; intros H; [inversion H; auto|].
    destruct o as [|o0 o']; [|discriminate]. destruct (forallb (tree_eqb (T kPass [] [])) b) eqn:Ep; [|discriminate].
    inversion H; auto.
  - intros b1 o1. unfold post. change (N.eqb kIfExp kCall) with false. change (N.eqb kIfExp kIfExp) with true.
    cbn iota. rewrite Hg. destruct (tree_eqb b1 (norm o1)) eqn:E; intros H; inversion H; auto.
Qed.
Print Assumptions C10_guard_branches_agree.

Theorem C10_erase_sound :
  forall (D : Type) (dnone : D) (sem : N -> list scalar -> list (list D) -> D) (eqvl : list D -> list D -> Prop),
  (forall l, eqvl l l) ->
  (forall a b c, eqvl a b -> eqvl b c -> eqvl a c) ->
  (forall a a' b b', eqvl a a' -> eqvl b b' -> eqvl (a ++ b) (a' ++ b')) ->
  (forall k sc fs fs', Forall2 eqvl fs fs' -> eqvl [sem k sc fs] [sem k sc fs']) ->
  (forall sc fs l, post kCall sc fs = Some l -> eqvl [den D dnone sem (T kCall sc fs)] (map (den D dnone sem) l)) ->
  (forall sc fs l, post kIfExp sc fs = Some l -> eqvl [den D dnone sem (T kIfExp sc fs)] (map (den D dnone sem) l)) ->
  (forall sc fs l, post kIf sc fs = Some l -> eqvl [den D dnone sem (T kIf sc fs)] (map (den D dnone sem) l)) ->
  (forall sc fs l, post kTry sc fs = Some l -> eqvl [den D dnone sem (T kTry sc fs)] (map (den D dnone sem) l)) ->
  (forall sc fs l, post kExpr sc fs = Some l -> eqvl [den D dnone sem (T kExpr sc fs)] (map (den D dnone sem) l)) ->
  (forall sc fs l, post kSubscript sc fs = Some l -> eqvl [den D dnone sem (T kSubscript sc fs)] (map (den D dnone sem) l)) ->
  (forall t, eqvl [den D dnone sem (norm t)] [den D dnone sem t]) ->
  forall src out, check_erase src out = true -> eqvl [den D dnone sem out] [den D dnone sem src].
Proof. exact check_erase_sound. Qed.
Print Assumptions C10_erase_sound.

(* non-vacuity: a guard conditional with differing branches is rejected, with equal branches it collapses *)
Local Open Scope N_scope.
Definition gtest : tree := T kBoolOp [] [[T kAnd [] []]; [T kName [SId 4] [[T kLoad [] []]]; T kName [SId 5000] [[T kLoad [] []]]]].
Definition c1 (z : Z) : tree := T kConstant [SInt z; SNone] [].
Example C10_nonvacuous :
  is_guard_test gtest = true /\ post kIfExp [] [[gtest]; [c1 1]; [c1 1]] = Some [c1 1] /\ post kIfExp [] [[gtest]; [c1 1]; [c1 2]] = None.
Proof. vm_compute. repeat split; reflexivity. Qed.

(* DOCSTRING POSITIONS (model/Erase.v check_docs, proofs/DocProofs.v).  `EMIT(.., ret="s")` has the value of "s", and the erasure treats it
   so; but a string is the docstring of a function / class / module only when it stands, as written, as the first statement of the body -
   a fact about syntax that no law of C10_erase_sound sees.  `check_docs out` is evaluated on every rewriter output together with check_erase;
   for EVERY tree it accepts and every function / class / module body ANYWHERE in it (guard-exempt and pristine copies included): if the erased
   body (which check_erase compares with the source) begins with a docstring, then the body as written begins with that very statement;
   and a docstring written at the head of a body is the head of the erased body.  So source and output have their docstrings in the same places. *)
Theorem C10_docstrings_kept : forall out k sc fs body d' rest,
  check_docs out = true -> DocProofs.subtree (T k sc fs) out -> scope_body k fs = Some body ->
  erase_stmts body = Some (d' :: rest) -> is_docstring_strict d' = true ->
  exists body', body = d' :: body'.
Proof. exact DocProofs.check_docs_everywhere. Qed.
Print Assumptions C10_docstrings_kept.
Theorem C10_docstrings_erased : forall d body l,
  is_docstring_strict d = true -> erase_stmts (d :: body) = Some l -> exists rest, l = d :: rest.
Proof. exact DocProofs.doc_head_erased. Qed.
Print Assumptions C10_docstrings_erased.

(* non-vacuity: `def f(): "doc"; pass` whose string has been wrapped passes check_erase (the value is the same) and fails check_docs;
   left as written it passes both *)
Definition doc_fun (d : tree) : tree :=
  T kModule [] [[T kFunctionDef [SId 100%N; SNone] [[T karguments [] [[]; []; []; []; []; []; []]]; [d; T kPass [] []]; []; []; []]]; []].
Definition doc_stmt : tree := T kExpr [] [[T kConstant [SStr 500%N; SNone] []]].
Definition doc_wrapped : tree :=
  T kExpr [] [[T kCall [] [[T kName [SId 1%N] [[T kLoad [] []]]]; [T kConstant [SStr 1090%N; SNone] []; T kConstant [SNid 3%N; SNone] []];
                          [T kkeyword [SId 6%N] [[T kConstant [SStr 500%N; SNone] []]]]]]].
Example C10_docstrings_nonvacuous :
  check_erase (doc_fun doc_stmt) (doc_fun doc_wrapped) = true /\ check_docs (doc_fun doc_wrapped) = false /\
  check_erase (doc_fun doc_stmt) (doc_fun doc_stmt) = true /\ check_docs (doc_fun doc_stmt) = true.
Proof. vm_compute. repeat split; reflexivity. Qed.

(* GUARDS AS A THEOREM on a fragment with `while` loops (model/FragLoop.v: FragSem.v + while loops with else clauses, the two guards the
   rewriter gives each loop, the pristine copy of a loop body, try / finally around an iteration, global guards enabled or not).
   Handlers may activate and deactivate guards in any way: `pol` is an ARBITRARY function from the stream delivered so far to the set of
   guards that are on.  Loops run on fuel (iterations per execution of a loop), the same for source and instrumented program.
   For ALL primitive operations, subscriptions, guard settings, policies, source modules, environments and fuel:

   C10_frag_results - two runs of the instrumented program, under any two subscriptions, guard settings and guard schedules, end with
                      the same exception (or none, or out of fuel) and the same bindings;
   C10_frag_plain   - namely those of the program as it is;
   C10_frag_stream  - the subscribed events arrive exactly as the gated reference `lref_module` writes them out: an iteration that starts
                      while the loop's body guard is off contributes nothing (nor does a test evaluated while the test guard is off),
                      an iteration that starts while it is on delivers its events also when the guard is switched off half-way and is
                      closed by after_while_loop_iter also when it raises; after a deactivation delivery resumes.
   K-loop ties model, evaluator and reference to the real rewriter, CPython and the real runtime under guard rules. *)
Theorem C10_frag_results : forall binop cmpop unop truth cval is_and fuel c1 ge1 pol1 c2 ge2 pol2 body r sv sv',
  forallb FragLoopProofs.lsrc_s body = true ->
  FragLoop.l_exc (FragLoop.lexec_l binop cmpop unop truth cval is_and c1 pol1 fuel (FragLoop.linstr_module c1 ge1 body) r sv []) =
  FragLoop.l_exc (FragLoop.lexec_l binop cmpop unop truth cval is_and c2 pol2 fuel (FragLoop.linstr_module c2 ge2 body) r sv' []) /\
  FragLoop.l_env (FragLoop.lexec_l binop cmpop unop truth cval is_and c1 pol1 fuel (FragLoop.linstr_module c1 ge1 body) r sv []) =
  FragLoop.l_env (FragLoop.lexec_l binop cmpop unop truth cval is_and c2 pol2 fuel (FragLoop.linstr_module c2 ge2 body) r sv' []).
Proof. exact FragLoopProofs.loop_results. Qed.
Print Assumptions C10_frag_results.

Theorem C10_frag_plain : forall binop cmpop unop truth cval is_and fuel c ge pol pol0 body r sv sv',
  forallb FragLoopProofs.lsrc_s body = true ->
  FragLoop.l_exc (FragLoop.lexec_l binop cmpop unop truth cval is_and c pol fuel (FragLoop.linstr_module c ge body) r sv []) =
  FragLoop.l_exc (FragLoop.lexec_l binop cmpop unop truth cval is_and FragSemProofs.no_events pol0 fuel body r sv' []) /\
  FragLoop.l_env (FragLoop.lexec_l binop cmpop unop truth cval is_and c pol fuel (FragLoop.linstr_module c ge body) r sv []) =
  FragLoop.l_env (FragLoop.lexec_l binop cmpop unop truth cval is_and FragSemProofs.no_events pol0 fuel body r sv' []).
Proof. exact FragLoopProofs.loop_plain. Qed.
Print Assumptions C10_frag_plain.

Theorem C10_frag_stream : forall binop cmpop unop truth cval is_and fuel c ge pol body r sv,
  forallb FragLoopProofs.lsrc_s body = true ->
  FragSem.filter_log c (FragLoop.l_log (FragLoop.lexec_l binop cmpop unop truth cval is_and c pol fuel (FragLoop.linstr_module c ge body) r sv [])) =
  FragSem.filter_log c (FragLoop.rl_log (FragLoop.lref_module binop cmpop unop truth cval is_and c pol fuel ge body r)).
Proof. exact FragLoopProofs.loop_stream. Qed.
Print Assumptions C10_frag_stream.

(* non-vacuity: `i = 0; while i < 3: i = i + 1` with load_name and after_while_loop_iter subscribed.  With all guards on, 3 iterations deliver
   10 + 3 events; with the body guard switched off as soon as the first after_while_loop_iter has been delivered, iterations 2 and 3 are silent:
   the loads of the test still arrive (the test guard is on), the loads of the body and the two further after_while_loop_iter do not;
   the result i = 3 is the same *)
Definition ex_loop : list FragLoop.lstmt :=
  [FragLoop.LAssign 1 [100] (FragSem.XConst 4 (SInt 0%Z));
   FragLoop.LWhile 5 (FragSem.XCmp 6 (FragSem.XName 7 100) [kLt] [FragSem.XConst 10 (SInt 3%Z)])
     [FragLoop.LAssign 11 [100] (FragSem.XBin 14 (FragSem.XName 15 100) kAdd (FragSem.XConst 18 (SInt 1%Z)))] []]%N.
Definition ex_c : RwFrag.rcfg := {| RwFrag.sub := fun e => existsb (Events.event_eqb e) [Events.E_load_name; Events.E_after_while_loop_iter] |}.
Definition pol_on : list FragSem.entry -> FragLoop.guard -> bool := fun _ _ => true.
Definition pol_off_after_first : list FragSem.entry -> FragLoop.guard -> bool :=
  fun log g => match g with
               | FragLoop.GBody 5 => negb (existsb (fun en => Events.event_eqb (fst (fst en)) Events.E_after_while_loop_iter) log)
               | _ => true
               end.
Example C10_frag_nonvacuous :
  forallb FragLoopProofs.lsrc_s ex_loop = true /\
  let run pol := FragLoop.lexec_l FragSem.Py.binop FragSem.Py.cmpop FragSem.Py.unop FragSem.Py.truth FragSem.Py.cval FragSem.Py.is_and ex_c pol 10
                   (FragLoop.linstr_module ex_c true ex_loop) (fun _ => None) FragSem.VNone [] in
  FragLoop.l_env (run pol_on) 100 = Some (FragSem.VInt 3) /\ FragLoop.l_env (run pol_off_after_first) 100 = Some (FragSem.VInt 3) /\
  length (FragLoop.l_log (run pol_on)) = 10%nat /\ length (FragLoop.l_log (run pol_off_after_first)) = 6%nat.
Proof. vm_compute. repeat split; reflexivity. Qed.

(* FUNCTIONS (model/FragFun.v): module-level definitions, return, calls standing as right-hand sides; recursion on fuel (call depth `d`);
   handlers flip FUNCTION guards by an arbitrary policy `pol` of the stream delivered so far.  For ALL primitive operations,
   subscriptions, guard settings, policies, depths, source modules `m` of the fragment and environments:
   C10_fun_results - two runs of the instrumented program, under any two subscriptions / guard settings / guard schedules, end with the
                     same exception (or none, or out of fuel) and the same bindings;
   C10_fun_plain   - namely those of the program as it is (no rewriting at all);
   C10_fun_stream  - the subscribed events arrive exactly as the gated reference `fref_module` writes them out: an invocation that starts
                     while the function's guard is off delivers nothing from that body (the functions it calls speak for themselves,
                     each according to its own guard), one that starts while it is on delivers its events also when the guard is
                     switched off half-way and is closed by after_function_execution however it ends (return, falling off the end,
                     exception); after a deactivation delivery resumes.
   K-fun ties model, evaluator and reference to the real rewriter, CPython and the real runtime under guard rules. *)
Theorem C10_fun_results : forall binop cmpop unop truth cval is_and c1 ge1 pol1 c2 ge2 pol2 m d r sv sv',
  forallb FragFunProofs.fsrc_t m = true ->
  FragFun.f_exc (FragFun.frun binop cmpop unop truth cval is_and c1 pol1 d (FragFun.finstr_module c1 ge1 m) r sv) =
  FragFun.f_exc (FragFun.frun binop cmpop unop truth cval is_and c2 pol2 d (FragFun.finstr_module c2 ge2 m) r sv') /\
  FragFun.f_env (FragFun.frun binop cmpop unop truth cval is_and c1 pol1 d (FragFun.finstr_module c1 ge1 m) r sv) =
  FragFun.f_env (FragFun.frun binop cmpop unop truth cval is_and c2 pol2 d (FragFun.finstr_module c2 ge2 m) r sv').
Proof. exact FragFunProofs.fun_results. Qed.
Print Assumptions C10_fun_results.

Theorem C10_fun_plain : forall binop cmpop unop truth cval is_and c ge pol c0 pol0 m d r sv sv',
  forallb FragFunProofs.fsrc_t m = true ->
  FragFun.f_exc (FragFun.frun binop cmpop unop truth cval is_and c pol d (FragFun.finstr_module c ge m) r sv) =
  FragFun.f_exc (FragFun.frun binop cmpop unop truth cval is_and c0 pol0 d m r sv') /\
  FragFun.f_env (FragFun.frun binop cmpop unop truth cval is_and c pol d (FragFun.finstr_module c ge m) r sv) =
  FragFun.f_env (FragFun.frun binop cmpop unop truth cval is_and c0 pol0 d m r sv').
Proof. exact FragFunProofs.fun_plain. Qed.
Print Assumptions C10_fun_plain.

Theorem C10_fun_stream : forall binop cmpop unop truth cval is_and c ge pol m d r sv,
  forallb FragFunProofs.fsrc_t m = true ->
  FragSem.filter_log c (FragFun.f_log (FragFun.frun binop cmpop unop truth cval is_and c pol d (FragFun.finstr_module c ge m) r sv)) =
  FragSem.filter_log c (FragFun.fr_log (FragFun.fref_module binop cmpop unop truth cval is_and c pol ge d m r)).
Proof. exact FragFunProofs.fun_stream. Qed.
Print Assumptions C10_fun_stream.

(* non-vacuity: `def f(p): return p + 1`, `a = f(1)`, `b = f(2)` with load_name, before_function_body and after_function_execution
   subscribed.  With the guard of f on throughout: 8 events (per call: the load of `f`, before_function_body, the load of `p`,
   after_function_execution); with the guard switched off as soon as the first after_function_execution has been delivered the second
   invocation is silent (only the load of `f` at the call site, which is not in the body, arrives): 5 events; a = 2, b = 3 either way *)
Definition ex_fun : list FragFun.fstmt :=
  [FragFun.FDef 1 100 [101] [FragFun.FReturn 4 (Some (FragFun.RExp (FragSem.XBin 5 (FragSem.XName 6 101) kAdd (FragSem.XConst 9 (SInt 1%Z)))))];
   FragFun.FAssign 10 [102] (FragFun.RCall 13 false false false (FragSem.XName 14 100) [FragSem.XConst 16 (SInt 1%Z)]);
   FragFun.FAssign 17 [103] (FragFun.RCall 20 false false false (FragSem.XName 21 100) [FragSem.XConst 23 (SInt 2%Z)])]%N.
Definition ex_fc : RwFrag.rcfg :=
  {| RwFrag.sub := fun e => existsb (Events.event_eqb e) [Events.E_load_name; Events.E_before_function_body; Events.E_after_function_execution] |}.
Definition fpol_on : list FragSem.entry -> N -> bool := fun _ _ => true.
Definition fpol_off_after_first : list FragSem.entry -> N -> bool :=
  fun log g => negb (N.eqb g 1 && existsb (fun en => Events.event_eqb (fst (fst en)) Events.E_after_function_execution) log).
Example C10_fun_nonvacuous :
  forallb FragFunProofs.fsrc_t ex_fun = true /\
  let run pol := FragFun.frun FragSem.Py.binop FragSem.Py.cmpop FragSem.Py.unop FragSem.Py.truth FragSem.Py.cval FragSem.Py.is_and ex_fc pol 5
                   (FragFun.finstr_module ex_fc true ex_fun) (fun _ => None) FragSem.VNone in
  FragFun.f_env (run fpol_on) 102%N = Some (FragSem.VInt 2) /\ FragFun.f_env (run fpol_on) 103%N = Some (FragSem.VInt 3) /\
  FragFun.f_env (run fpol_off_after_first) 102%N = Some (FragSem.VInt 2) /\ FragFun.f_env (run fpol_off_after_first) 103%N = Some (FragSem.VInt 3) /\
  FragFun.f_exc (run fpol_on) = None /\
  length (FragFun.f_log (run fpol_on)) = 8%nat /\ length (FragFun.f_log (run fpol_off_after_first)) = 5%nat.
Proof. vm_compute. repeat split; reflexivity. Qed.

(* LOOPS AND FUNCTIONS TOGETHER (model/FragProg.v): while / else / break / continue inside function bodies, `return` from inside a loop (through the
   try / finally of an instrumented iteration), module-level loops calling functions, recursion through loops; two kinds of fuel (iterations per
   loop execution, call depth); ONE arbitrary policy `pol` over loop-test, loop-body and function guards.  The pristine copy of a loop body keeps
   guarded tests on nested loops, the pristine copy of a function body is plain.  For ALL primitive operations, subscriptions, guard settings,
   policies, fuels, source modules of the fragment and environments:
   C10_prog_results / C10_prog_plain / C10_prog_stream - as C10_frag_* and C10_fun_*, for the merged fragment (they subsume both).
   K-prog ties model, evaluator and reference to the real rewriter, CPython and the real runtime under guard rules on all three kinds of guard. *)
Theorem C10_prog_results : forall binop cmpop unop truth cval is_and fuel c1 ge1 pol1 c2 ge2 pol2 m d r sv sv',
  forallb FragProgProofs.psrc_t m = true ->
  FragProg.p_exc (FragProg.prun binop cmpop unop truth cval is_and c1 pol1 fuel d (FragProg.pinstr_module c1 ge1 m) r sv) =
  FragProg.p_exc (FragProg.prun binop cmpop unop truth cval is_and c2 pol2 fuel d (FragProg.pinstr_module c2 ge2 m) r sv') /\
  FragProg.p_env (FragProg.prun binop cmpop unop truth cval is_and c1 pol1 fuel d (FragProg.pinstr_module c1 ge1 m) r sv) =
  FragProg.p_env (FragProg.prun binop cmpop unop truth cval is_and c2 pol2 fuel d (FragProg.pinstr_module c2 ge2 m) r sv').
Proof. exact FragProgProofs.prog_results. Qed.
Print Assumptions C10_prog_results.

Theorem C10_prog_plain : forall binop cmpop unop truth cval is_and fuel c ge pol c0 pol0 m d r sv sv',
  forallb FragProgProofs.psrc_t m = true ->
  FragProg.p_exc (FragProg.prun binop cmpop unop truth cval is_and c pol fuel d (FragProg.pinstr_module c ge m) r sv) =
  FragProg.p_exc (FragProg.prun binop cmpop unop truth cval is_and c0 pol0 fuel d m r sv') /\
  FragProg.p_env (FragProg.prun binop cmpop unop truth cval is_and c pol fuel d (FragProg.pinstr_module c ge m) r sv) =
  FragProg.p_env (FragProg.prun binop cmpop unop truth cval is_and c0 pol0 fuel d m r sv').
Proof. exact FragProgProofs.prog_plain. Qed.
Print Assumptions C10_prog_plain.

Theorem C10_prog_stream : forall binop cmpop unop truth cval is_and fuel c ge pol m d r sv,
  forallb FragProgProofs.psrc_t m = true ->
  FragSem.filter_log c (FragProg.p_log (FragProg.prun binop cmpop unop truth cval is_and c pol fuel d (FragProg.pinstr_module c ge m) r sv)) =
  FragSem.filter_log c (FragProg.pr_log (FragProg.pref_module binop cmpop unop truth cval is_and c pol fuel ge d m r)).
Proof. exact FragProgProofs.prog_stream. Qed.
Print Assumptions C10_prog_stream.

(* non-vacuity: `def f(p): i = 0; while i < p: i = i + 1; if i > 1: return i` / `return 0`, then `a = f(3)`, with before_while_loop_body,
   after_while_loop_iter, after_return and after_function_execution subscribed.  All guards on: iteration 1 is bracketed, iteration 2 is entered,
   returns (after_return), and is still closed by after_while_loop_iter on the way out, then after_function_execution: 6 events.  With the body
   guard of the loop switched off once the first after_while_loop_iter has been delivered, iteration 2 runs the pristine copy: its `return i` is
   a plain return, nothing brackets it; the function itself is still loud: 3 events.  a = 2 either way *)
Definition ex_prog : list FragProg.pstmt :=
  [FragProg.PDef 1 100 [101]
     [FragProg.PAssign 4 [102] (FragFun.RExp (FragSem.XConst 7 (SInt 0%Z)));
      FragProg.PWhile 8 (FragSem.XCmp 9 (FragSem.XName 10 102) [kLt] [FragSem.XName 13 101])
        [FragProg.PAssign 15 [102] (FragFun.RExp (FragSem.XBin 18 (FragSem.XName 19 102) kAdd (FragSem.XConst 22 (SInt 1%Z))));
         FragProg.PIf 23 (FragSem.XCmp 24 (FragSem.XName 25 102) [kGt] [FragSem.XConst 28 (SInt 1%Z)])
           [FragProg.PReturn 29 (Some (FragFun.RExp (FragSem.XName 30 102)))] []] [];
      FragProg.PReturn 32 (Some (FragFun.RExp (FragSem.XConst 33 (SInt 0%Z))))];
   FragProg.PAssign 34 [103] (FragFun.RCall 37 false false false (FragSem.XName 38 100) [FragSem.XConst 40 (SInt 3%Z)])]%N.
Definition ex_pc : RwFrag.rcfg :=
  {| RwFrag.sub := fun e => existsb (Events.event_eqb e) [Events.E_before_while_loop_body; Events.E_after_while_loop_iter; Events.E_after_return; Events.E_after_function_execution] |}.
Definition ppol_on : list FragSem.entry -> FragProg.guard -> bool := fun _ _ => true.
Definition ppol_off_after_first : list FragSem.entry -> FragProg.guard -> bool :=
  fun log g => match g with
               | FragProg.GBody 8 => negb (existsb (fun en => Events.event_eqb (fst (fst en)) Events.E_after_while_loop_iter) log)
               | _ => true
               end.
Example C10_prog_nonvacuous :
  forallb FragProgProofs.psrc_t ex_prog = true /\
  let run pol := FragProg.prun FragSem.Py.binop FragSem.Py.cmpop FragSem.Py.unop FragSem.Py.truth FragSem.Py.cval FragSem.Py.is_and ex_pc pol 10 5
                   (FragProg.pinstr_module ex_pc true ex_prog) (fun _ => None) FragSem.VNone in
  FragProg.p_exc (run ppol_on) = None /\ FragProg.p_env (run ppol_on) 103%N = Some (FragSem.VInt 2) /\
  FragProg.p_env (run ppol_off_after_first) 103%N = Some (FragSem.VInt 2) /\
  length (FragProg.p_log (run ppol_on)) = 6%nat /\ length (FragProg.p_log (run ppol_off_after_first)) = 3%nat.
Proof. vm_compute. repeat split; reflexivity. Qed.
