(* C11 - conditional handlers run exactly where their condition says.
   model/Pred.v: predicate structures (Predicate.TRUE / FALSE, base conditions static or dynamic, any / all composites), their
   evaluation as the code performs it (p(node), p.dynamic_call(node), .static), the emission-site decision of the rewriter
   (one any-composite over ALL handlers of the event), the per-handler delivery test of _emit_event and the local-guard
   conditional.  Every boolean decision is taken from gen/PredGen.v, REGENERATED from predicate.py / tracer.py /
   ast_rewriter.py on every run, so these theorems are re-checked against what the code says now.
   `holds env p` is what the condition means: the boolean combination of its base conditions at the node. *)
From Coq Require Import List NArith Bool Arith.
Import ListNotations.
From PyccoloV Require Import gen.PredGen model.Pred proofs.PredProofs.

(* the code's evaluation of a condition is its meaning; dynamic_call is `True` for wholly static conditions and the
   meaning otherwise (in particular for composites mixing static and dynamic parts) *)
Theorem C11_condition_meaning : forall env p, wf p = true ->
  callp env p = holds env p /\ dynp env p = (if p_static p then true else holds env p).
Proof. exact evalp_meaning. Qed.
Print Assumptions C11_condition_meaning.

(* any / all are the boolean combinations of their parts (after coalescing), for every list of conditions ... *)
Theorem C11_any : forall env ps, ps <> [] -> holds env (pany ps) = existsb (holds env) ps.
Proof. exact pany_meaning. Qed.
Print Assumptions C11_any.
Theorem C11_all : forall env ps, holds env (pall ps) = forallb (holds env) ps.
Proof. exact pall_meaning. Qed.
Print Assumptions C11_all.
(* ... except any([]), which is Predicate.TRUE (asserted by the suite's test_static_coalescing; recorded finding) *)
Theorem C11_any_empty_refuted : exists env, holds env (pany []) <> existsb (holds env) [].
Proof. exists (fun _ => true). cbn. discriminate. Qed.
Print Assumptions C11_any_empty_refuted.

(* where the handler with condition p runs, among the handlers hs of its event (all stacked tracers) *)
Theorem C11_invoked_char : forall env hs p, hs <> [] -> forallb wf hs = true -> wf p = true ->
  invoked env hs p = existsb (holds env) hs && (p_static p || holds env p).
Proof. exact invoked_char. Qed.
Print Assumptions C11_invoked_char.

(* exactly where the condition holds: for every condition that is not wholly static, whatever else is registered ... *)
Theorem C11_exact_partial : forall env hs p, In p hs -> forallb wf hs = true -> p_static p = false ->
  invoked env hs p = holds env p.
Proof. exact invoked_exact_nonstatic. Qed.
Print Assumptions C11_exact_partial.
(* ... and for every condition, static ones included, when the handler is the only one of its event *)
Theorem C11_exact_sole : forall env p, wf p = true -> invoked env [p] p = holds env p.
Proof. exact invoked_exact_sole. Qed.
Print Assumptions C11_exact_sole.
(* no occurrence whose node satisfies the condition is ever missed *)
Theorem C11_no_miss : forall env hs p, In p hs -> forallb wf hs = true -> holds env p = true -> invoked env hs p = true.
Proof. exact invoked_no_miss. Qed.
Print Assumptions C11_no_miss.
(* the full statement fails for a wholly static condition sharing its event with another handler (recorded finding) *)
Theorem C11_exact_refuted : exists env hs p, In p hs /\ forallb wf hs = true /\ invoked env hs p = true /\ holds env p = false.
Proof. exact static_shared_refuted. Qed.
Print Assumptions C11_exact_refuted.

(* local guards: when the guarded handlers of a site name one guard x, the handler is skipped - and the pristine
   expression evaluated instead of the emit call - exactly while x is set in the module's globals *)
Theorem C11_guard_partial : forall env G hs gs p x, In x gs -> (forall y, In y gs -> y = x) ->
  invoked_g env G hs gs p (Some x) = negb (G x) && invoked env hs p /\ pristine_taken G gs = G x.
Proof. exact guard_exact. Qed.
Print Assumptions C11_guard_partial.
Theorem C11_unguarded_site : forall env G hs p, invoked_g env G hs [] p None = invoked env hs p.
Proof. exact unguarded_site. Qed.
Print Assumptions C11_unguarded_site.
(* two handlers of one event naming different guards: setting one silences the other too (recorded finding) *)
Theorem C11_guard_refuted : exists env G hs gs p,
  In p hs /\ holds env p = true /\ In 2%N gs /\ G 2%N = false /\ invoked_g env G hs gs p (Some 2%N) = false.
Proof. exact guard_other_refuted. Qed.
Print Assumptions C11_guard_refuted.

(* conditions that raise on some nodes (`n.func.id == "f"` asked about a method call): evalx / site_x / invoked_x follow Python's
   evaluation order and exceptions (None = an exception leaves the evaluation; for site_x: it leaves AstRewriter.visit and nothing
   is rewritten).  The rewrite is never aborted, whatever the registration order, and every handler runs exactly where the reading
   "a condition that raises for a node is not satisfied by it" says - so every theorem above applies with env := total envx. *)
Theorem C11_raising_conditions : forall envx hs p, invoked_x envx hs p = Some (invoked (total envx) hs p).
Proof. exact invoked_x_total. Qed.
Print Assumptions C11_raising_conditions.
Theorem C11_raising_conditions_guarded : forall envx G hs gs p g, invoked_gx envx G hs gs p g = Some (invoked_g (total envx) G hs gs p g).
Proof. exact invoked_gx_total. Qed.
Print Assumptions C11_raising_conditions_guarded.
Theorem C11_raising_evaluation : forall envx p,
  tot (fst (evalx envx p)) = callp (total envx) p /\ tot (snd (evalx envx p)) = dynp (total envx) p /\ never_raises envx p.
Proof. exact evalx_total. Qed.
Print Assumptions C11_raising_evaluation.
(* non-vacuity: condition 0 raises at the node, condition 1 holds: in either registration order the site is rewritten, the handler
   of condition 1 runs and the handler of condition 0 does not (before c224119 the order [c0; c1] aborted the rewrite) *)
Example C11_raising_nonvacuous :
  let envx := fun c => if N.eqb c 0 then None else Some true in
  let p0 := PBase false 0 in let p1 := PBase false 1 in
  evalx envx p0 = (None, None)
  /\ invoked_x envx [p0; p1] p1 = Some true /\ invoked_x envx [p1; p0] p1 = Some true
  /\ invoked_x envx [p0; p1] p0 = Some false /\ invoked_x envx [p1; p0] p0 = Some false.
Proof. vm_compute. repeat split; reflexivity. Qed.

(* non-vacuity: all([static c0, dynamic c1]) next to an unconditional handler: invoked exactly where c0 and c1 hold *)
Definition ex_p : pred := pall [PBase true 0; PBase false 1].
Example C11_nonvacuous :
  wf ex_p = true /\ p_static ex_p = false
  /\ invoked (fun c => true) [ex_p; PTrue] ex_p = true
  /\ invoked (fun c => N.eqb c 1) [ex_p; PTrue] ex_p = false
  /\ invoked (fun c => N.eqb c 0) [ex_p; PTrue] ex_p = false.
Proof. vm_compute. repeat split; reflexivity. Qed.
