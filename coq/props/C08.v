(* C08 - deferred before-expression events preserve semantics and honour overrides.
   (1) semantics preservation: the same certificate check as C01 (the thunk shapes EMIT(evt, id, ret=TLAM(lambda: e))(),
       the two-argument binop / n-argument compare thunks) - C08_erase_sound is the soundness theorem it rests on;
       ./check C08 evaluates it on programs instrumented with subsets of the fifteen deferred events.
   (2) overrides: what the rewritten program calls is `make_ret event ret` - REGENERATED from emit_event.py::_make_ret on
       every run; C08_make_ret states the contract: a callable result is used as the computation, anything else is
       wrapped into a constant computation; non-deferred events are handed back unchanged. *)
From Coq Require Import List ZArith NArith Bool.
Import ListNotations.
From PyccoloV Require Import gen.Events gen.EmitRet gen.PyAst model.Val model.Tree model.Erase proofs.EraseSound.

Theorem C08_make_ret : forall ev v,
  (is_before_expr_event ev = true -> rv_callable v = true -> make_ret ev v = v) /\
  (is_before_expr_event ev = true -> rv_callable v = false -> make_ret ev v = RConstThunk v) /\
  (is_before_expr_event ev = false -> make_ret ev v = v).
Proof.
  intros ev v. unfold make_ret. repeat split; intros H; try intros H2; rewrite H; try rewrite H2; reflexivity.
Qed.
Print Assumptions C08_make_ret.

Theorem C08_erase_sound :
  forall (D : Type) (dnone : D) (sem : N -> list scalar -> list (list D) -> D) (eqvl : list D -> list D -> Prop),
  (forall l, eqvl l l) ->
  (forall a b c, eqvl a b -> eqvl b c -> eqvl a c) ->
  (forall a a' b b', eqvl a a' -> eqvl b b' -> eqvl (a ++ b) (a' ++ b')) ->
  (forall k sc fs fs', Forall2 eqvl fs fs' -> eqvl [sem k sc fs] [sem k sc fs']) ->
  (forall sc fs l, post kCall sc fs = Some l -> eqvl [den D dnone sem (T kCall sc fs)] (map (den D dnone sem) l)) ->
  (forall sc fs l, post kIfExp sc fs = Some l -> eqvl [den D dnone sem (T kIfExp sc fs)] (map (den D dnone sem) l)) ->
  (forall sc fs l, post kIf sc fs = Some l -> eqvl [den D dnone sem (T kIf sc fs)] (map (den D dnone sem) l)) ->
  (forall sc fs l, post kTry sc fs = Some l -> eqvl [den D dnone sem (T kTry sc fs)] (map (den D dnone sem) l)) ->
  (forall sc fs l, post kExpr sc fs = Some l -> eqvl [den D dnone sem (T kExpr sc fs)] (map (den D dnone sem) l)) ->
  (forall sc fs l, post kSubscript sc fs = Some l -> eqvl [den D dnone sem (T kSubscript sc fs)] (map (den D dnone sem) l)) ->
  (forall t, eqvl [den D dnone sem (norm t)] [den D dnone sem t]) ->
  forall src out, check_erase src out = true -> eqvl [den D dnone sem out] [den D dnone sem src].
Proof. exact check_erase_sound. Qed.
Print Assumptions C08_erase_sound.

(* non-vacuity: the deferred binop shape  EMIT("before_binop", id, ret=TLAM(lambda x, y: x + y))(1, 2)  erases to 1 + 2 *)
Local Open Scope N_scope.
Definition c1 (z : Z) : tree := T kConstant [SInt z; SNone] [].
Definition nm (x : N) : tree := T kName [SId x] [[T kLoad [] []]].
Definition ex_binop_out : tree :=
  T kCall [] [[T kCall [] [[nm 1]; [T kConstant [SStr 1085; SNone] []; T kConstant [SNid 2; SNone] []];
     [T kkeyword [SId 6] [[T kCall [] [[nm 2]; [T kLambda [] [[T karguments [] [[]; [T karg [SId 8; SNone] [[]]; T karg [SId 9; SNone] [[]]]; []; []; []; []; []]];
                                                              [T kBinOp [] [[nm 8]; [T kAdd [] []]; [nm 9]]]]]; []]]];
      T kkeyword [SId 7] [[T kConstant [SNone; SNone] []]]]]]; [c1 1; c1 2]; []].
Example C08_nonvacuous :
  erase ex_binop_out = Some [T kBinOp [] [[c1 1]; [T kAdd [] []]; [c1 2]]] /\
  make_ret E_before_binop (RUser 41 false) = RConstThunk (RUser 41 false) /\ make_ret E_before_binop (RUser 9 true) = RUser 9 true.
Proof. vm_compute. repeat split; reflexivity. Qed.
