(* C08 - deferred before-expression events preserve semantics and honour overrides.
   (1) semantics preservation: the same certificate check as C01 (the thunk shapes EMIT(evt, id, ret=TLAM(lambda: e))(),
       the two-argument binop / n-argument compare thunks) - C08_erase_sound is the soundness theorem it rests on;
       ./check C08 evaluates it on programs instrumented with subsets of the fifteen deferred events.
   (2) overrides: what the rewritten program calls is `make_ret event ret` - REGENERATED from emit_event.py::_make_ret on
       every run; C08_make_ret states the contract: a callable result is used as the computation, anything else is
       wrapped into a constant computation; non-deferred events are handed back unchanged. *)
From Coq Require Import List ZArith NArith Bool.
Import ListNotations.
From PyccoloV Require model.RwFrag model.FragSem proofs.FragSemProofs model.FragOv proofs.FragOvProofs.
From PyccoloV Require Import gen.Events gen.EmitRet gen.PyAst model.Val model.Tree model.Erase proofs.EraseSound.

Theorem C08_make_ret : forall ev v,
  (is_before_expr_event ev = true -> rv_callable v = true -> make_ret ev v = v) /\
  (is_before_expr_event ev = true -> rv_callable v = false -> make_ret ev v = RConstThunk v) /\
  (is_before_expr_event ev = false -> make_ret ev v = v).
Proof.
  intros ev v. unfold make_ret. repeat split; intros H; try intros H2; rewrite H; try rewrite H2; reflexivity.
Qed.
Print Assumptions C08_make_ret.

Theorem C08_erase_sound :
  forall (D : Type) (dnone : D) (sem : N -> list scalar -> list (list D) -> D) (eqvl : list D -> list D -> Prop),
  (forall l, eqvl l l) ->
  (forall a b c, eqvl a b -> eqvl b c -> eqvl a c) ->
  (forall a a' b b', eqvl a a' -> eqvl b b' -> eqvl (a ++ b) (a' ++ b')) ->
  (forall k sc fs fs', Forall2 eqvl fs fs' -> eqvl [sem k sc fs] [sem k sc fs']) ->
  (forall sc fs l, post kCall sc fs = Some l -> eqvl [den D dnone sem (T kCall sc fs)] (map (den D dnone sem) l)) ->
  (forall sc fs l, post kIfExp sc fs = Some l -> eqvl [den D dnone sem (T kIfExp sc fs)] (map (den D dnone sem) l)) ->
  (forall sc fs l, post kIf sc fs = Some l -> eqvl [den D dnone sem (T kIf sc fs)] (map (den D dnone sem) l)) ->
  (forall sc fs l, post kTry sc fs = Some l -> eqvl [den D dnone sem (T kTry sc fs)] (map (den D dnone sem) l)) ->
  (forall sc fs l, post kExpr sc fs = Some l -> eqvl [den D dnone sem (T kExpr sc fs)] (map (den D dnone sem) l)) ->
  (forall sc fs l, post kSubscript sc fs = Some l -> eqvl [den D dnone sem (T kSubscript sc fs)] (map (den D dnone sem) l)) ->
  (forall t, eqvl [den D dnone sem (norm t)] [den D dnone sem t]) ->
  forall src out, check_erase src out = true -> eqvl [den D dnone sem out] [den D dnone sem src].
Proof. exact check_erase_sound. Qed.
Print Assumptions C08_erase_sound.

(* non-vacuity: the deferred binop shape  EMIT("before_binop", id, ret=TLAM(lambda x, y: x + y))(1, 2)  erases to 1 + 2 *)
Local Open Scope N_scope.
Definition c1 (z : Z) : tree := T kConstant [SInt z; SNone] [].
Definition nm (x : N) : tree := T kName [SId x] [[T kLoad [] []]].
Definition ex_binop_out : tree :=
  T kCall [] [[T kCall [] [[nm 1]; [T kConstant [SStr 1085; SNone] []; T kConstant [SNid 2; SNone] []];
     [T kkeyword [SId 6] [[T kCall [] [[nm 2]; [T kLambda [] [[T karguments [] [[]; [T karg [SId 8; SNone] [[]]; T karg [SId 9; SNone] [[]]]; []; []; []; []; []]];
                                                              [T kBinOp [] [[nm 8]; [T kAdd [] []]; [nm 9]]]]]; []]]];
      T kkeyword [SId 7] [[T kConstant [SNone; SNone] []]]]]]; [c1 1; c1 2]; []].
Example C08_nonvacuous :
  erase ex_binop_out = Some [T kBinOp [] [[c1 1]; [T kAdd [] []]; [c1 2]]] /\
  make_ret E_before_binop (RUser 41 false) = RConstThunk (RUser 41 false) /\ make_ret E_before_binop (RUser 9 true) = RUser 9 true.
Proof. vm_compute. repeat split; reflexivity. Qed.

(* OVERRIDES AS A THEOREM on the fragment (model/FragOv.v: the terms and the rewriter of FragSem.v, handlers that hand back values).
     hv e n x : what the handler of the value event e does with the value x it is given at node n (None: nothing; Some y: y is used instead;
                pyc.Null is Some VNone);
     hd e n   : what the handler of the deferred event e (before_binop, before_compare, before_assign_rhs) hands back (None: nothing;
                Some v: the computation is replaced by the constant v).
   The reference `ref_omodule` is the source semantics in which the handlers of the SUBSCRIBED events act as the event table says: a value
   event's handler replaces the value every later computation sees; an overridden before_binop / before_compare still evaluates the operands
   that are arguments of the deferred call (both operands; the left operand and the first comparator) and nothing that sits inside the thunk
   (the later comparators); an overridden before_assign_rhs evaluates nothing of the right-hand side.
   For ALL primitive operations, handler tables, subscriptions, source modules and environments the instrumented module ends with the
   exception and the bindings of that reference and delivers its stream.  K-ov ties evaluator and reference to real runs whose handlers
   override by table. *)
Theorem C08_frag_overrides : forall binop cmpop unop truth cval is_and hv hd (c : RwFrag.rcfg) body r sv,
  forallb FragSemProofs.src_s body = true ->
  FragSem.s_exc (FragOv.exec_ol binop cmpop unop truth cval is_and hv hd (FragSem.instr_module c body) r sv) =
    FragSem.r_exc (FragOv.ref_omodule binop cmpop unop truth cval is_and hv hd c body r) /\
  FragSem.s_env (FragOv.exec_ol binop cmpop unop truth cval is_and hv hd (FragSem.instr_module c body) r sv) =
    FragSem.r_env (FragOv.ref_omodule binop cmpop unop truth cval is_and hv hd c body r) /\
  FragSem.filter_log c (FragSem.s_log (FragOv.exec_ol binop cmpop unop truth cval is_and hv hd (FragSem.instr_module c body) r sv)) =
    FragSem.filter_log c (FragSem.r_log (FragOv.ref_omodule binop cmpop unop truth cval is_and hv hd c body r)).
Proof. exact FragOvProofs.ov_module. Qed.
Print Assumptions C08_frag_overrides.

(* non-vacuity: `a = 2 + 3` with before_binop and after_assign_rhs subscribed; the before_binop handler hands back 42: both operands are
   still evaluated, a = 42, and after_assign_rhs sees 42 *)
Example C08_frag_overrides_nonvacuous :
  let body := [FragSem.SAssign 1 [100] (FragSem.XBin 4 (FragSem.XConst 5 (SInt 2%Z)) kAdd (FragSem.XConst 7 (SInt 3%Z)))] in
  let c := {| RwFrag.sub := fun e => existsb (event_eqb e) [E_before_binop; E_after_int; E_after_assign_rhs] |} in
  let hd := fun e (n : N) => if event_eqb e E_before_binop then Some (FragSem.VInt 42) else None in
  let a := FragOv.exec_ol FragSem.Py.binop FragSem.Py.cmpop FragSem.Py.unop FragSem.Py.truth FragSem.Py.cval FragSem.Py.is_and (fun _ _ _ => None) hd
             (FragSem.instr_module c body) (fun _ => None) FragSem.VNone in
  forallb FragSemProofs.src_s body = true /\ FragSem.s_env a 100 = Some (FragSem.VInt 42) /\
  FragSem.s_log a = [(E_before_binop, 4, None); (E_after_int, 5, Some (FragSem.VInt 2)); (E_after_int, 7, Some (FragSem.VInt 3)); (E_after_assign_rhs, 4, Some (FragSem.VInt 42))].
Proof. vm_compute. repeat split; reflexivity. Qed.
