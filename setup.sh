#!/bin/sh
# MANIFEST.setup_cmd: build the framework offline from files on disk (translators -> coq/gen, full .vo build).
set -e
cd "$(dirname "$0")"
mkdir -p .work replays evidence
/venv/bin/python -B -c "
import sys; sys.path.insert(0, 'tools')
import lib
errs = lib.run_translators()
for e in errs: print('translator problem:', e)
"
cd coq
coq_makefile -f _CoqProject -o Makefile > /dev/null
timeout 3000 make -j16 2>&1 | grep -v '^COQ\|^Closed under' || true
test -f props/C03.vo && test -f props/C05.vo && test -f props/C11.vo && test -f props/C12.vo && test -f props/C13.vo && test -f props/C19.vo && test -f props/C20.vo && test -f props/C04.vo && test -f props/C16.vo && test -f props/C17.vo && test -f props/C06.vo && test -f props/C07.vo && test -f props/C09.vo && test -f props/C01.vo && test -f props/C02.vo && test -f props/C08.vo && test -f props/C10.vo && test -f props/C14.vo && test -f props/C15.vo && test -f props/C18.vo
